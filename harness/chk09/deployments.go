package chk09

import "package-operator.run/internal/verifharness/vh"

// deployments: pause propagation Package -> ObjectDeployment -> revisions (added with the deployment family).
func deployments(c *vh.Ctx) {}
