package chk09

import (
	"math/rand"

	"package-operator.run/internal/verifharness/chkfam"
	"package-operator.run/internal/verifharness/monitors"
	"package-operator.run/internal/verifharness/scen"
	"package-operator.run/internal/verifharness/vh"
)

// deployments: pause propagation ObjectDeployment -> revisions.
func deployments(c *vh.Ctx) {
	chkfam.RunDeployStream(c, chkfam.DeployConfig{
		Stream: "c09-deployments", NQuick: 150, NThorough: 3000,
		Profile: func(r *rand.Rand) scen.DeployProfile {
			return scen.DeployProfile{
				Steps: 70 + r.Intn(60), Cluster: r.Intn(4) == 0, Limit: []int{-1, 1, 2}[r.Intn(3)], Templates: 3,
				Weights: scen.DeployWeightsWith(map[string]int{"pause-deployment": 7, "unpause-deployment": 6, "pause-set": 6, "unpause-set": 3, "edit-template": 6, "workload": 15, "plant-collision": 0, "fault": 1}),
			}
		},
		Monitors:          func() []scen.Monitor { return []scen.Monitor{&monitors.C09D{}, &monitors.C09{}} },
		NonTrivialCounter: "c09d_paused_deployment_passes",
	})
	c.GateCount("c09d_paused_deployment_passes", 200)
	c.GateCount("c09d_revisions_paused_by_parent", 200)
	c.GateCount("c09d_revisions_released", 50)
	c.GateCount("c09d_user_paused_revision_left_alone", 20)
}
