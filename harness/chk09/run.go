// Package chk09 decides property C09 (paused means hands-off).
package chk09

import (
	"math/rand"

	"package-operator.run/internal/verifharness/chkfam"
	"package-operator.run/internal/verifharness/monitors"
	"package-operator.run/internal/verifharness/scen"
	"package-operator.run/internal/verifharness/vh"
)

func Run(c *vh.Ctx) {
	chkfam.RunStream(c, chkfam.Config{
		Stream: "c09-sets", NQuick: 300, NThorough: 5000,
		Profile: func(r *rand.Rand) scen.Profile {
			return scen.Profile{
				Steps: 60 + r.Intn(60), Cluster: r.Intn(4) == 0, Hosted: r.Intn(4) == 0, Delegated: []float64{0, 0.3, 0.5}[r.Intn(3)], MaxRevisions: 1 + r.Intn(3),
				Weights: scen.WeightsWith(map[string]int{"reconcile": 45, "workload": 15, "adv-delete": 5, "adv-reown": 4, "adv-edit": 5, "adv-recreate": 2, "user-pause": 10, "user-unpause": 5,
					"user-archive": 1, "user-delete": 1, "user-next-revision": 4}),
				CPs: []string{"", "None", "IfNoController"},
			}
		},
		Monitors:          func() []scen.Monitor { return []scen.Monitor{&monitors.C09{}} },
		NonTrivialCounter: "c09_paused_passes",
	})
	deployments(c)
	for _, g := range []chkfam.Gate{{"c09_paused_passes", 500}, {"c09_paused_saw_missing_object", 50}, {"c09_paused_saw_foreign_owned_object", 20}, {"c09_paused_available_compared", 300}} {
		c.GateCount(g.Counter, g.Min)
	}
	c.Finish("exploration",
		"run = random rollout / handover / drift histories in which pause and unpause are toggled at random instants on ObjectSets (local, delegated, hosted phases) while a third party deletes, edits and re-owns the managed objects; every pass of a paused owner is checked for zero writes on listed objects, Paused reported, and Available equal to the reference probe evaluation of the states it read; non-trivial = at least one pass of a paused owner; distinct = distinct step logs",
		chkfam.CommonAssumptions)
}
