package driver

import (
	"context"
	"encoding/json"
	"runtime/debug"

	"k8s.io/apimachinery/pkg/apis/meta/v1/unstructured"
	"k8s.io/apimachinery/pkg/runtime"
	"sigs.k8s.io/controller-runtime/pkg/client"

	"package-operator.run/internal/verifharness/simkube"
)

func stack() string { return string(debug.Stack()) }

// Actor returns a context for a non-controller actor and a fresh uncached client for it.
func (w *World) Actor(name string) (context.Context, *simkube.Client) {
	return simkube.WithActor(context.Background(), name), w.Store.Client(Scheme, simkube.Role{Name: "actor"})
}

func (w *World) TargetActor(name string) (context.Context, *simkube.Client) {
	return simkube.WithActor(context.Background(), name), w.Target.Client(Scheme, simkube.Role{Name: "actor"})
}

// U builds an unstructured object from a JSON-like map.
func U(m map[string]any) *unstructured.Unstructured {
	b, err := json.Marshal(m)
	if err != nil {
		panic(err)
	}
	u := &unstructured.Unstructured{}
	if err := u.UnmarshalJSON(b); err != nil {
		panic(err)
	}
	return u
}

func Namespace(name string) *unstructured.Unstructured {
	return U(map[string]any{"apiVersion": "v1", "kind": "Namespace", "metadata": map[string]any{"name": name}})
}

// MustCreate creates objects as the named actor (panics on error: scenario construction must not fail).
func MustCreate(ctx context.Context, c client.Client, objs ...client.Object) {
	for _, o := range objs {
		if err := c.Create(ctx, o); err != nil {
			panic(err)
		}
	}
}

// Raw embeds an unstructured object into a runtime.RawExtension-free ObjectSetObject (helper for specs).
func Raw(u *unstructured.Unstructured) runtime.RawExtension {
	b, _ := u.MarshalJSON()
	return runtime.RawExtension{Raw: b}
}
