// Package driver wires the real Package Operator controllers exactly as
// cmd/package-operator-manager/components does, but against simkube and simcache, and
// replaces controller-runtime's manager with an explicit, PRNG-driven scheduler.
package driver

import (
	"context"
	"fmt"
	"os"
	"path/filepath"
	"sort"
	"sync"

	"github.com/go-logr/logr"
	apiextensionsv1 "k8s.io/apiextensions-apiserver/pkg/apis/apiextensions/v1"
	"k8s.io/apimachinery/pkg/labels"
	"k8s.io/apimachinery/pkg/runtime"
	"k8s.io/apimachinery/pkg/runtime/schema"
	"k8s.io/apimachinery/pkg/types"
	clientgoscheme "k8s.io/client-go/kubernetes/scheme"
	ctrl "sigs.k8s.io/controller-runtime"
	"sigs.k8s.io/controller-runtime/pkg/client"
	"sigs.k8s.io/controller-runtime/pkg/reconcile"

	"package-operator.run/apis"
	corev1alpha1 "package-operator.run/apis/core/v1alpha1"
	"package-operator.run/internal/constants"
	"package-operator.run/internal/controllers/objectdeployments"
	"package-operator.run/internal/controllers/objectsetphases"
	"package-operator.run/internal/controllers/objectsets"
	"package-operator.run/internal/dynamiccache"
	"package-operator.run/internal/verifharness/simcache"
	"package-operator.run/internal/verifharness/simkube"
)

var Scheme = func() *runtime.Scheme {
	s := runtime.NewScheme()
	for _, f := range []func(*runtime.Scheme) error{clientgoscheme.AddToScheme, apis.AddToScheme, apiextensionsv1.AddToScheme} {
		if err := f(s); err != nil {
			panic(err)
		}
	}
	return s
}()

// controller names
const (
	CtrlObjectSet             = "ObjectSet"
	CtrlClusterObjectSet      = "ClusterObjectSet"
	CtrlObjectSetPhase        = "ObjectSetPhase"
	CtrlClusterObjectSetPhase = "ClusterObjectSetPhase"
	CtrlRemotePhase           = "ObjectSetPhase(hosted)"
	CtrlObjectDeployment      = "ObjectDeployment"
	CtrlClusterObjectDepl     = "ClusterObjectDeployment"
	CtrlPackage               = "Package"
	CtrlClusterPackage        = "ClusterPackage"
	CtrlObjectTemplate        = "ObjectTemplate"
	CtrlClusterObjectTemplate = "ClusterObjectTemplate"

	RemoteClass = "hosted"
)

// kind reconciled by each controller
var CtrlKind = map[string]string{
	CtrlObjectSet: "ObjectSet", CtrlClusterObjectSet: "ClusterObjectSet",
	CtrlObjectSetPhase: "ObjectSetPhase", CtrlClusterObjectSetPhase: "ClusterObjectSetPhase", CtrlRemotePhase: "ObjectSetPhase",
	CtrlObjectDeployment: "ObjectDeployment", CtrlClusterObjectDepl: "ClusterObjectDeployment",
	CtrlPackage: "Package", CtrlClusterPackage: "ClusterPackage",
	CtrlObjectTemplate: "ObjectTemplate", CtrlClusterObjectTemplate: "ClusterObjectTemplate",
}

type Options struct {
	// CRDDir: config/crds of the tree under test (default $VERIF_REPO_SRC/config/crds).
	CRDDir string
	// Hosted: also create a second store as "hosted cluster" served by the multi-cluster ObjectSetPhase controller.
	Hosted bool
	// CachedLag / DynCacheLag: commits of staleness for the manager's cached client and the dynamic cache.
	CachedLag   func() int64
	DynCacheLag func() int64
	// CachedHideYoung: objects created within the last n commits are invisible to the manager's cached client.
	CachedHideYoung func() int64
	// CachedHideYoungKind: per-kind override of CachedHideYoung (negative = no override).
	CachedHideYoungKind func(kind string) int64
	// Controllers to build (nil = the ObjectSet family).
	Controllers []string
	// Extra is used by packages of the harness that add controllers (packages, templates).
	Extra func(w *World) map[string]reconcile.Reconciler
}

type World struct {
	Opts     Options
	Store    *simkube.Store
	Target   *simkube.Store // hosted cluster store (== Store unless Opts.Hosted)
	Cached   *simkube.Client
	Uncached *simkube.Client
	// dynamic cache of the management cluster
	CacheMap *simcache.Map
	Cache    *dynamiccache.Cache
	// hosted cluster access
	TargetCacheMap *simcache.Map
	TargetCache    *dynamiccache.Cache
	TargetClient   *simkube.Client

	Ctrl    map[string]reconcile.Reconciler
	passSeq int
	Passes  []*simkube.Pass
	// Restarts counts simulated process restarts.
	Restarts int
	// Fresh: caches have caught up (no lag, nothing hidden); set while a scenario settles.
	Fresh bool
}

var (
	baseOnce sync.Once
	base     *simkube.Store
	baseErr  error
)

var cacheSelector = labels.SelectorFromSet(labels.Set{constants.DynamicCacheLabel: "True"})

func crdDir(o Options) string {
	if o.CRDDir != "" {
		return o.CRDDir
	}
	if src := os.Getenv("VERIF_REPO_SRC"); src != "" {
		return filepath.Join(src, "config", "crds")
	}
	return "/repo/config/crds"
}

// RegisterBuiltins registers the non-PKO kinds the scenarios use.
func RegisterBuiltins(s *simkube.Store) {
	for _, k := range []simkube.KindInfo{
		{GVK: schema.GroupVersionKind{Version: "v1", Kind: "Namespace"}, Plural: "namespaces", StatusSub: true},
		{GVK: schema.GroupVersionKind{Version: "v1", Kind: "ConfigMap"}, Plural: "configmaps", Namespaced: true},
		{GVK: schema.GroupVersionKind{Version: "v1", Kind: "Secret"}, Plural: "secrets", Namespaced: true},
		{GVK: schema.GroupVersionKind{Version: "v1", Kind: "ServiceAccount"}, Plural: "serviceaccounts", Namespaced: true},
		{GVK: schema.GroupVersionKind{Group: "apps", Version: "v1", Kind: "Deployment"}, Plural: "deployments", Namespaced: true, StatusSub: true, Generation: true},
		{GVK: schema.GroupVersionKind{Group: "rbac.authorization.k8s.io", Version: "v1", Kind: "ClusterRole"}, Plural: "clusterroles"},
		{GVK: schema.GroupVersionKind{Group: "verif.example.com", Version: "v1", Kind: "Widget"}, Plural: "widgets", Namespaced: true, StatusSub: true, Generation: true},
		{GVK: schema.GroupVersionKind{Group: "verif.example.com", Version: "v1", Kind: "ClusterWidget"}, Plural: "clusterwidgets", StatusSub: true, Generation: true},
	} {
		s.RegisterKind(k)
	}
}

func NewWorld(o Options) (*World, error) {
	w := &World{Opts: o}
	w.Store = simkube.NewStore("mgmt")
	RegisterBuiltins(w.Store)
	baseOnce.Do(func() {
		base = simkube.NewStore("base")
		baseErr = base.LoadCRDs(crdDir(o))
	})
	if baseErr != nil {
		return nil, baseErr
	}
	w.Store.CopyKindsFrom(base)
	w.Target = w.Store
	if o.Hosted {
		w.Target = simkube.NewStore("hosted")
		RegisterBuiltins(w.Target)
	}
	w.Build()
	return w, nil
}

// Build (re)creates every piece of in-memory operator state: clients, dynamic caches,
// controllers. Only the stores survive. Calling it again simulates a process restart.
func (w *World) Build() {
	o := w.Opts
	wrap := func(f func() int64) func() int64 {
		if f == nil {
			return nil
		}
		return func() int64 {
			if w.Fresh {
				return 0
			}
			return f()
		}
	}
	o.CachedLag, o.CachedHideYoung, o.DynCacheLag = wrap(o.CachedLag), wrap(o.CachedHideYoung), wrap(o.DynCacheLag)
	var hideKind func(string) int64
	if o.CachedHideYoungKind != nil {
		hideKind = func(kind string) int64 {
			if w.Fresh {
				return 0
			}
			return o.CachedHideYoungKind(kind)
		}
	}
	w.Cached = w.Store.Client(Scheme, simkube.Role{Name: "cached", Lag: o.CachedLag, HideYoung: o.CachedHideYoung, HideYoungKind: hideKind, ResetOnRead: true})
	w.Uncached = w.Store.Client(Scheme, simkube.Role{Name: "uncached"})
	w.CacheMap = simcache.NewMap(func(gvk schema.GroupVersionKind) client.Reader {
		return w.Store.Client(Scheme, simkube.Role{Name: "dyncache", Lag: o.DynCacheLag, Selector: cacheSelector})
	})
	w.Cache = dynamiccache.NewCacheWithInformerMap(Scheme, w.CacheMap, nil)
	mapper := w.Store.RESTMapper()
	log := logr.Discard()
	w.Ctrl = map[string]reconcile.Reconciler{}
	names := o.Controllers
	if names == nil {
		names = []string{CtrlObjectSet, CtrlClusterObjectSet, CtrlObjectSetPhase, CtrlClusterObjectSetPhase, CtrlObjectDeployment, CtrlClusterObjectDepl}
		if o.Hosted {
			names = append(names, CtrlRemotePhase)
		}
	}
	for _, n := range names {
		switch n {
		case CtrlObjectSet:
			w.Ctrl[n] = objectsets.NewObjectSetController(w.Cached, log, Scheme, w.Cache, w.Uncached, nil, mapper)
		case CtrlClusterObjectSet:
			w.Ctrl[n] = objectsets.NewClusterObjectSetController(w.Cached, log, Scheme, w.Cache, w.Uncached, nil, mapper)
		case CtrlObjectSetPhase:
			w.Ctrl[n] = objectsetphases.NewSameClusterObjectSetPhaseController(log, Scheme, w.Cache, w.Uncached, "default", w.Cached, mapper)
		case CtrlClusterObjectSetPhase:
			w.Ctrl[n] = objectsetphases.NewSameClusterClusterObjectSetPhaseController(log, Scheme, w.Cache, w.Uncached, "default", w.Cached, mapper)
		case CtrlRemotePhase:
			w.TargetClient = w.Target.Client(Scheme, simkube.Role{Name: "target"})
			w.TargetCacheMap = simcache.NewMap(func(gvk schema.GroupVersionKind) client.Reader {
				return w.Target.Client(Scheme, simkube.Role{Name: "dyncache", Lag: o.DynCacheLag, Selector: cacheSelector})
			})
			w.TargetCache = dynamiccache.NewCacheWithInformerMap(Scheme, w.TargetCacheMap, nil)
			w.Ctrl[n] = objectsetphases.NewMultiClusterObjectSetPhaseController(log, Scheme, w.TargetCache,
				w.Target.Client(Scheme, simkube.Role{Name: "uncached"}), RemoteClass, w.Cached, w.TargetClient, w.Target.RESTMapper())
		case CtrlObjectDeployment:
			w.Ctrl[n] = objectdeployments.NewObjectDeploymentController(w.Cached, log, Scheme)
		case CtrlClusterObjectDepl:
			w.Ctrl[n] = objectdeployments.NewClusterObjectDeploymentController(w.Cached, log, Scheme)
		}
	}
	if o.Extra != nil {
		for n, c := range o.Extra(w) {
			w.Ctrl[n] = c
		}
	}
}

// Restart drops all in-memory operator state (controllers, dynamic caches with their
// references, back-off tables) and rebuilds it from nothing.
func (w *World) Restart() {
	w.Restarts++
	w.Build()
}

type PassResult struct {
	Pass    *simkube.Pass
	Result  ctrl.Result
	Err     error
	Crashed bool
	Panic   any
	Stack   string
}

// Reconcile runs one pass of a controller for a key. A simulated crash (fault injector)
// is recovered here; the caller decides when to Restart.
func (w *World) Reconcile(ctx context.Context, ctrlName string, key types.NamespacedName) (pr PassResult) {
	c, ok := w.Ctrl[ctrlName]
	if !ok {
		pr.Err = fmt.Errorf("driver: no controller %q", ctrlName)
		return pr
	}
	w.passSeq++
	pass := &simkube.Pass{ID: w.passSeq, Actor: ctrlName, Key: key, Attrs: map[string]any{}}
	w.Passes = append(w.Passes, pass)
	pr.Pass = pass
	defer func() {
		pass.Terminated = true
		if p := recover(); p != nil {
			if _, isCrash := p.(simkube.CrashSentinel); isCrash {
				pr.Crashed = true
				return
			}
			pr.Panic = p
			pr.Stack = stack()
		}
	}()
	pr.Result, pr.Err = c.Reconcile(simkube.WithPass(ctx, pass), reconcile.Request{NamespacedName: key})
	return pr
}

// Keys lists the existing objects of a kind in a store.
func Keys(s *simkube.Store, kind string) []types.NamespacedName {
	var out []types.NamespacedName
	for k := range s.Snapshot() {
		if k.Group == corev1alpha1.GroupVersion.Group && k.Kind == kind {
			out = append(out, types.NamespacedName{Namespace: k.Namespace, Name: k.Name})
		}
	}
	sort.Slice(out, func(i, j int) bool { return out[i].String() < out[j].String() })
	return out
}

// Work lists every (controller, key) pair a fair scheduler has to offer.
type Work struct {
	Ctrl string
	Key  types.NamespacedName
}

func (w *World) AllWork() []Work {
	var out []Work
	names := make([]string, 0, len(w.Ctrl))
	for n := range w.Ctrl {
		names = append(names, n)
	}
	sort.Strings(names)
	for _, n := range names {
		for _, k := range Keys(w.Store, CtrlKind[n]) {
			out = append(out, Work{n, k})
		}
	}
	return out
}

// Round reconciles everything once (in the given order function) and runs the GC.
// Returns whether any store changed.
func (w *World) Round(ctx context.Context, order func([]Work)) (changed bool, results []PassResult) {
	before, beforeT := w.Store.Seq(), w.Target.Seq()
	work := w.AllWork()
	if order != nil {
		order(work)
	}
	for _, wk := range work {
		results = append(results, w.Reconcile(ctx, wk.Ctrl, wk.Key))
	}
	w.Store.GCStep(ctx)
	if w.Target != w.Store {
		w.Target.GCStep(ctx)
	}
	return w.Store.Seq() != before || w.Target.Seq() != beforeT, results
}

// Quiesce runs fair rounds until a full round commits nothing. ok=false if maxRounds was not enough.
func (w *World) Quiesce(ctx context.Context, maxRounds int) (rounds int, ok bool, last []PassResult) {
	for rounds = 1; rounds <= maxRounds; rounds++ {
		changed, res := w.Round(ctx, nil)
		last = res
		if !changed {
			return rounds, true, last
		}
	}
	return maxRounds, false, last
}
