// Package chk18 decides C18: ObjectTemplates track their sources and stay within bounds.
//
// The real ObjectTemplate / ClusterObjectTemplate controllers run against simkube and the real dynamic cache.
// Unlike the ObjectSet family checks the scheduler here is event driven: a pass only happens when production
// would schedule one - an event on the ObjectTemplate itself, a dynamic-cache event routed through the real
// cache source + EnqueueWatchingObjects handler, a returned error / Requeue, or an expired RequeueAfter timer.
package chk18

import (
	"context"
	"encoding/json"
	"fmt"
	"math/rand"
	"reflect"
	"sort"
	"strings"
	"time"

	"github.com/go-logr/logr"
	metav1 "k8s.io/apimachinery/pkg/apis/meta/v1"
	"k8s.io/apimachinery/pkg/apis/meta/v1/unstructured"
	"k8s.io/apimachinery/pkg/labels"
	"k8s.io/apimachinery/pkg/runtime/schema"
	"k8s.io/apimachinery/pkg/types"
	"k8s.io/client-go/util/workqueue"
	"sigs.k8s.io/controller-runtime/pkg/reconcile"

	corev1alpha1 "package-operator.run/apis/core/v1alpha1"
	"package-operator.run/internal/apis/manifests"
	"package-operator.run/internal/constants"
	"package-operator.run/internal/controllers/objecttemplate"
	"package-operator.run/internal/dynamiccache"
	"package-operator.run/internal/verifharness/chkfam"
	"package-operator.run/internal/verifharness/driver"
	"package-operator.run/internal/verifharness/pkomodel"
	"package-operator.run/internal/verifharness/scen"
	"package-operator.run/internal/verifharness/simkube"
	"package-operator.run/internal/verifharness/vh"
)

const descAnnotation = "verif.example.com/descriptor"

// ---- descriptors (ground truth the templates are generated from) ----

type src struct {
	Kind     string // ConfigMap | Widget | ClusterWidget
	NS       string // as written in the spec ("" = defaulted)
	Name     string
	Optional bool
	Dest     string // k0, k1, ...
	KeyForm  int
}

type tmpl struct {
	Cluster    bool
	NS, Name   string
	Sources    []src
	Broken     string // "", parse, exec
	TargetKind string // ConfigMap | Widget | ClusterWidget
	TargetNS   string // "" absent | literal | "@k0"
	Rev        int
	// OmitOptional: keys of optional sources are left out of the target when the source is missing or its value is empty
	OmitOptional bool
}

func (d *tmpl) key() types.NamespacedName { return types.NamespacedName{Namespace: d.NS, Name: d.Name} }
func (d *tmpl) ctrl() string {
	if d.Cluster {
		return driver.CtrlClusterObjectTemplate
	}
	return driver.CtrlObjectTemplate
}
func (d *tmpl) kind() string { return driver.CtrlKind[d.ctrl()] }

func gvkOf(kind string) schema.GroupVersionKind {
	switch kind {
	case "ConfigMap":
		return scen.GVKConfigMap
	case "Widget":
		return scen.GVKWidget
	}
	return scen.GVKClusterWidget
}

func namespaced(kind string) bool { return kind != "ClusterWidget" }

func valuePath(kind string) []string {
	if kind == "ConfigMap" {
		return []string{"data", "v"}
	}
	return []string{"spec", "v"}
}

func (s src) keyExpr() string {
	p := strings.Join(valuePath(s.Kind), ".")
	return []string{p, "." + p, "{." + p + "}", "{" + p + "}"}[s.KeyForm%4]
}

func (d *tmpl) text() string {
	g := gvkOf(d.TargetKind)
	var b strings.Builder
	fmt.Fprintf(&b, "apiVersion: %s\nkind: %s\nmetadata:\n  name: out-%s\n", g.GroupVersion().String(), g.Kind, d.Name)
	switch {
	case d.TargetNS == "@k0":
		b.WriteString("  namespace: {{ .config.k0 }}\n")
	case d.TargetNS != "":
		fmt.Fprintf(&b, "  namespace: %s\n", d.TargetNS)
	}
	// metadata rendered from a source as well: an update has to carry re-rendered annotations, not only the payload
	fmt.Fprintf(&b, "  annotations:\n    %s: {{ %s | quote }}\n", metaAnnotation, d.metaExpr())
	if d.TargetKind == "ConfigMap" {
		b.WriteString("data:\n")
	} else {
		b.WriteString("spec:\n")
	}
	for _, s := range d.Sources {
		if s.Optional && d.OmitOptional {
			fmt.Fprintf(&b, "{{- with index .config %q }}\n  %s: {{ . | quote }}\n{{- end }}\n", s.Dest, s.Dest)
		} else if s.Optional {
			fmt.Fprintf(&b, "  %s: {{ index .config %q | default \"none\" | quote }}\n", s.Dest, s.Dest)
		} else {
			fmt.Fprintf(&b, "  %s: {{ .config.%s | quote }}\n", s.Dest, s.Dest)
		}
	}
	b.WriteString("  kube: {{ .environment.kubernetes.version | quote }}\n")
	switch d.Broken {
	case "parse":
		b.WriteString("  broken: {{ .config.k0 | \n")
	case "exec":
		b.WriteString("  broken: {{ .config.doesNotExist.atAll }}\n")
	}
	return b.String()
}

const metaAnnotation = "verif.example/meta"

// metaSource is the source whose value the target's annotation is rendered from (the first required one); nil: the environment.
func (d *tmpl) metaSource() *src {
	for i := range d.Sources {
		if !d.Sources[i].Optional {
			return &d.Sources[i]
		}
	}
	return nil
}

func (d *tmpl) metaExpr() string {
	if s := d.metaSource(); s != nil {
		return ".config." + s.Dest
	}
	return ".environment.kubernetes.version"
}

func (d *tmpl) object() *unstructured.Unstructured {
	var sources []any
	for _, s := range d.Sources {
		m := map[string]any{"apiVersion": gvkOf(s.Kind).GroupVersion().String(), "kind": s.Kind, "name": s.Name,
			"items": []any{map[string]any{"key": s.keyExpr(), "destination": "." + s.Dest}}}
		if s.NS != "" {
			m["namespace"] = s.NS
		}
		if s.Optional {
			m["optional"] = true
		}
		sources = append(sources, m)
	}
	dj, _ := json.Marshal(d)
	md := map[string]any{"name": d.Name, "annotations": map[string]any{descAnnotation: string(dj)}}
	if !d.Cluster {
		md["namespace"] = d.NS
	}
	return driver.U(map[string]any{"apiVersion": "package-operator.run/v1alpha1", "kind": d.kind(), "metadata": md,
		"spec": map[string]any{"template": d.text(), "sources": sources}})
}

func descFrom(o simkube.Obj) *tmpl {
	if o == nil {
		return nil
	}
	md, _ := o["metadata"].(map[string]any)
	an, _ := md["annotations"].(map[string]any)
	s, _ := an[descAnnotation].(string)
	if s == "" {
		return nil
	}
	d := &tmpl{}
	if json.Unmarshal([]byte(s), d) != nil {
		return nil
	}
	return d
}

// effective namespace of a source as the reconciler resolves it.
func (d *tmpl) srcNS(s src) string {
	if !namespaced(s.Kind) {
		return ""
	}
	if s.NS == "" {
		return d.NS
	}
	return s.NS
}

func (d *tmpl) srcKey(s src) simkube.Key {
	g := gvkOf(s.Kind)
	return simkube.Key{Group: g.Group, Kind: g.Kind, Namespace: d.srcNS(s), Name: s.Name}
}

// ---- reference semantics ----

type verdict struct {
	Class   string // ok | source-out-of-bounds | missing-required | template-error | target-out-of-bounds
	Retry   bool   // an optional source was missing
	Target  simkube.Key
	Content map[string]any
}

// classify evaluates a descriptor on source values (look returns the value of a source object and whether it exists).
func classify(d *tmpl, kube string, look func(s src) (string, bool)) verdict {
	v := verdict{Class: "ok", Content: map[string]any{"kube": kube}}
	vals := map[string]string{}
	for _, s := range d.Sources {
		if !d.Cluster {
			if !namespaced(s.Kind) || (s.NS != "" && s.NS != d.NS) {
				v.Class = "source-out-of-bounds"
				return v
			}
		}
		val, ok := look(s)
		if !ok {
			if s.Optional {
				v.Retry = true
				if !d.OmitOptional {
					v.Content[s.Dest] = "none"
				}
				continue
			}
			v.Class = "missing-required"
			return v
		}
		vals[s.Dest] = val
		switch {
		case s.Optional && val == "" && d.OmitOptional:
		case s.Optional && val == "":
			v.Content[s.Dest] = "none"
		default:
			v.Content[s.Dest] = val
		}
	}
	if d.Broken != "" {
		v.Class = "template-error"
		return v
	}
	if ms := d.metaSource(); ms != nil {
		v.Content["@meta"] = vals[ms.Dest]
	} else {
		v.Content["@meta"] = kube
	}
	tns := d.TargetNS
	if tns == "@k0" {
		tns = vals["k0"]
	}
	g := gvkOf(d.TargetKind)
	if !d.Cluster {
		if !namespaced(d.TargetKind) || (tns != "" && tns != d.NS) {
			v.Class = "target-out-of-bounds"
			return v
		}
		tns = d.NS
	} else if !namespaced(d.TargetKind) {
		tns = ""
	}
	v.Target = simkube.Key{Group: g.Group, Kind: g.Kind, Namespace: tns, Name: "out-" + d.Name}
	return v
}

func valueOf(kind string, o simkube.Obj) (string, bool) {
	if o == nil {
		return "", false
	}
	s, ok, _ := unstructured.NestedString(o, valuePath(kind)...)
	return s, ok
}

func contentOf(kind string, o simkube.Obj) map[string]any {
	f := "spec"
	if kind == "ConfigMap" {
		f = "data"
	}
	m, _ := o[f].(map[string]any)
	out := map[string]any{}
	for k, v := range m {
		out[k] = v
	}
	if md, _ := o["metadata"].(map[string]any); md != nil {
		if an, _ := md["annotations"].(map[string]any); an != nil {
			if v, ok := an[metaAnnotation]; ok {
				out["@meta"] = v
			}
		}
	}
	return out
}

// ---- event driven scheduler ----

type work struct {
	Ctrl string
	Key  types.NamespacedName
}

type queue struct {
	workqueue.TypedRateLimitingInterface[reconcile.Request] // nil: any other method is a harness error
	s                                                       *sched
	ctrl                                                    string
}

func (q queue) Add(r reconcile.Request) { q.s.enqueue(work{q.ctrl, r.NamespacedName}, "cache event") }

type sched struct {
	e        *scen.Env
	c        *vh.Ctx
	kube     string
	pending  []work
	timers   []work
	writes   []*simkube.Request
	gone     map[string]string // uid -> name of deleted templates
	selector labels.Selector
	failed   int
}

func (s *sched) has(l []work, w work) bool {
	for _, x := range l {
		if x == w {
			return true
		}
	}
	return false
}

func (s *sched) enqueue(w work, why string) {
	if !s.has(s.pending, w) {
		s.pending = append(s.pending, w)
	}
	s.e.Count("c18_enqueue_" + strings.ReplaceAll(why, " ", "_"))
}

// OnRequest records committed writes; they are turned into watch events by flush (outside the commit section).
func (s *sched) OnRequest(e *scen.Env, req *simkube.Request) {
	if !req.IsWrite() || req.DryRun || req.Err != nil || !req.Changed {
		return
	}
	s.writes = append(s.writes, req)
	// namespace bound: everything a namespaced template's pass writes lies in its namespace
	if req.Pass != nil && req.Pass.Actor == driver.CtrlObjectTemplate && req.Key.Namespace != req.Pass.Key.Namespace {
		e.Report("C18:write-outside-template-namespace", fmt.Sprintf("pass of ObjectTemplate %s wrote %s", req.Pass.Key, req))
	}
}

func matches(sel labels.Selector, o simkube.Obj) bool {
	if o == nil {
		return false
	}
	md, _ := o["metadata"].(map[string]any)
	l, _ := md["labels"].(map[string]any)
	set := labels.Set{}
	for k, v := range l {
		set[k], _ = v.(string)
	}
	return sel.Matches(set)
}

func uns(o simkube.Obj) *unstructured.Unstructured {
	b, _ := json.Marshal(o)
	u := &unstructured.Unstructured{}
	_ = json.Unmarshal(b, &u.Object)
	return u
}

// flush delivers the watch events of the recorded writes: the controller's own kind directly (For), every other kind through
// the informer of the real dynamic cache, if one is running for the kind and the object passes its label selector.
func (s *sched) flush() {
	ws := s.writes
	s.writes = nil
	for _, req := range ws {
		switch req.GVK.Kind {
		case "ObjectTemplate":
			s.enqueue(work{driver.CtrlObjectTemplate, types.NamespacedName{Namespace: req.Key.Namespace, Name: req.Key.Name}}, "template event")
			continue
		case "ClusterObjectTemplate":
			s.enqueue(work{driver.CtrlClusterObjectTemplate, types.NamespacedName{Name: req.Key.Name}}, "template event")
			continue
		}
		inf := s.e.W.CacheMap.Live(req.GVK)
		if inf == nil {
			continue
		}
		pre, post := matches(s.selector, req.Pre), matches(s.selector, req.Post) && req.Verb != "delete"
		if req.Verb == "delete" && req.Post != nil {
			// deletion with finalizers pending is an update
			post = matches(s.selector, req.Post) && s.e.W.Store.PeekKey(req.Key) != nil
		}
		switch {
		case pre && post:
			inf.FireUpdate(uns(req.Pre), uns(req.Post))
		case post:
			inf.FireAdd(uns(req.Post))
		case pre:
			inf.FireDelete(uns(req.Pre))
		}
	}
}

func (s *sched) OnPassEnd(e *scen.Env, pr driver.PassResult) {
	p := pr.Pass
	if p == nil || (p.Actor != driver.CtrlObjectTemplate && p.Actor != driver.CtrlClusterObjectTemplate) {
		return
	}
	w := work{p.Actor, p.Key}
	switch {
	case pr.Crashed || pr.Panic != nil || pr.Err != nil || pr.Result.Requeue:
		s.failed++
		if !s.has(s.timers, w) {
			s.timers = append(s.timers, w) // rate limited retry
		}
	case pr.Result.RequeueAfter > 0:
		if !s.has(s.timers, w) {
			s.timers = append(s.timers, w)
		}
	}
	s.checkPass(pr)
}

func hasFault(p *simkube.Pass) bool {
	for _, r := range p.Requests {
		if r.Fault != "" {
			return true
		}
	}
	return false
}

// checkPass: offline oracle over one pass, evaluated on the source states the pass itself read.
func (s *sched) checkPass(pr driver.PassResult) {
	e, p := s.e, pr.Pass
	var ot simkube.Obj
	for _, r := range p.Requests {
		if r.Verb == "get" && r.GVK.Kind == driver.CtrlKind[p.Actor] && r.Err == nil {
			ot = r.Post
			break
		}
	}
	d := descFrom(ot)
	if d == nil || pkomodel.Deleting(ot) {
		return
	}
	e.Count("c18_passes_checked")
	if pr.Crashed || pr.Panic != nil || hasFault(p) {
		return
	}
	observed := map[simkube.Key]simkube.Obj{}
	seen := map[simkube.Key]bool{}
	srcKeys := map[simkube.Key]bool{}
	for _, sr := range d.Sources {
		if !d.Cluster && (!namespaced(sr.Kind) || (sr.NS != "" && sr.NS != d.NS)) {
			continue // out of bounds: neither read nor labelled
		}
		srcKeys[d.srcKey(sr)] = true
	}
	for _, r := range p.Requests {
		if r.Verb == "get" && srcKeys[r.Key] && (r.Role == "dyncache" || r.Role == "uncached") {
			if r.Err == nil {
				observed[r.Key], seen[r.Key] = r.Post, true
			} else if !seen[r.Key] {
				observed[r.Key] = nil
			}
		}
		if r.IsWrite() && srcKeys[r.Key] && r.Err == nil && r.Post != nil {
			observed[r.Key] = r.Post // the cache label patch returns the current object
		}
	}
	v := classify(d, s.kube, func(sr src) (string, bool) { return valueOf(sr.Kind, observed[d.srcKey(sr)]) })
	e.Count("c18_pass_class_" + v.Class)
	// writes of the pass other than the template itself and the cache label on in-bounds sources
	var targetWrites []*simkube.Request
	for _, r := range p.Requests {
		if !r.IsWrite() || r.DryRun || r.GVK.Kind == driver.CtrlKind[p.Actor] {
			continue
		}
		if srcKeys[r.Key] && r.Verb == "patch" {
			continue
		}
		targetWrites = append(targetWrites, r)
	}
	var status simkube.Obj
	for _, r := range p.Requests {
		if r.IsWrite() && r.Sub == "status" && r.GVK.Kind == driver.CtrlKind[p.Actor] {
			status, _ = r.Body.(simkube.Obj)
			if status == nil {
				status = r.Post
			}
		}
	}
	if v.Class != "ok" {
		for _, r := range targetWrites {
			e.Report("C18:write-although-"+v.Class, fmt.Sprintf("%s %s is %s on what the pass read, but the pass sent %s", d.kind(), d.key(), v.Class, r))
		}
		if pr.Err == nil {
			c := pkomodel.FindCond(status, corev1alpha1.ObjectTemplateInvalid)
			if status == nil || c == nil || c.Status != "True" {
				e.Report("C18:invalid-not-reported:"+v.Class, fmt.Sprintf("%s %s is %s on what the pass read, submitted Invalid condition: %+v", d.kind(), d.key(), v.Class, c))
			}
		}
		if v.Class == "missing-required" && pr.Err == nil && pr.Result.RequeueAfter <= 0 {
			e.Report("C18:missing-required-source-not-retried", fmt.Sprintf("%s %s: pass ended with %+v", d.kind(), d.key(), pr.Result))
		}
		return
	}
	if pr.Err != nil {
		return
	}
	if v.Retry {
		e.Count("c18_passes_with_missing_optional_source")
		if pr.Result.RequeueAfter <= 0 {
			e.Report("C18:missing-optional-source-not-retried", fmt.Sprintf("%s %s: an optional source was missing, the pass ended with %+v", d.kind(), d.key(), pr.Result))
		}
	}
	// the pass wrote the reference rendering
	var last *simkube.Request
	for _, r := range targetWrites {
		if r.Key != v.Target {
			e.Report("C18:write-to-unexpected-object", fmt.Sprintf("%s %s: expected target %s, the pass sent %s", d.kind(), d.key(), v.Target, r))
			continue
		}
		last = r
	}
	if last == nil {
		e.Report("C18:valid-template-not-applied", fmt.Sprintf("%s %s is valid on what the pass read but the pass wrote no target", d.kind(), d.key()))
		return
	}
	if last.Err == nil {
		e.Count("c18_pass_renderings_compared")
		if got := contentOf(d.TargetKind, last.Post); !reflect.DeepEqual(got, v.Content) {
			e.Report("C18:rendering-differs-from-sources-read", fmt.Sprintf("%s %s: wrote %v, the sources read render to %v", d.kind(), d.key(), got, v.Content))
		}
		if c := pkomodel.FindCond(status, corev1alpha1.ObjectTemplateInvalid); c != nil && c.Status == "True" {
			e.Report("C18:invalid-reported-for-valid-template", fmt.Sprintf("%s %s: %+v", d.kind(), d.key(), c))
		}
	}
}

func (s *sched) runOne(r *rand.Rand) bool {
	s.flush()
	if len(s.pending) == 0 {
		return false
	}
	i := r.Intn(len(s.pending))
	w := s.pending[i]
	s.pending = append(s.pending[:i], s.pending[i+1:]...)
	s.e.Reconcile(w.Ctrl, w.Key)
	s.flush()
	return true
}

func (s *sched) tick() {
	for _, w := range s.timers {
		s.enqueue(w, "timer")
	}
	s.timers = nil
}

// settle: run until nothing is pending, let every timer expire, repeat until a whole cycle commits nothing.
func (s *sched) settle(r *rand.Rand) bool {
	s.e.Disarm()
	s.e.W.Fresh = true
	for cycle := 0; cycle < 12; cycle++ {
		before := s.e.W.Store.Seq()
		s.failed = 0
		for n := 0; s.runOne(r); n++ {
			if n > 400 {
				return false
			}
		}
		s.e.GC()
		s.flush()
		if len(s.pending) > 0 {
			continue
		}
		s.tick()
		for n := 0; s.runOne(r); n++ {
			if n > 400 {
				return false
			}
		}
		s.e.GC()
		s.flush()
		if s.e.W.Store.Seq() == before && len(s.pending) == 0 && s.failed == 0 {
			return true
		}
	}
	return false
}

// ---- scenario ----

func run(c *vh.Ctx, i int) {
	r := c.Rand("c18", i)
	kube := fmt.Sprintf("1.%d.%d", 24+r.Intn(6), r.Intn(9))
	env := manifests.PackageEnvironment{Kubernetes: manifests.PackageEnvironmentKubernetes{Version: kube}}
	s := &sched{c: c, kube: kube, gone: map[string]string{}, selector: labels.SelectorFromSet(labels.Set{constants.DynamicCacheLabel: "True"})}
	opts := driver.Options{
		Controllers: []string{},
		Extra: func(dw *driver.World) map[string]reconcile.Reconciler {
			cfg := objecttemplate.ControllerConfig{OptionalResourceRetryInterval: 30 * time.Second, ResourceRetryInterval: 10 * time.Second}
			mapper := dw.Store.RESTMapper()
			ot := objecttemplate.NewObjectTemplateController(dw.Cached, dw.Uncached, logr.Discard(), dw.Cache, driver.Scheme, mapper, cfg)
			cot := objecttemplate.NewClusterObjectTemplateController(dw.Cached, dw.Uncached, logr.Discard(), dw.Cache, driver.Scheme, mapper, cfg)
			ot.SetEnvironment(&env)
			cot.SetEnvironment(&env)
			// production wiring of the watch sources (SetupWithManager), onto the harness' queue
			for n, typ := range map[string]*unstructured.Unstructured{driver.CtrlObjectTemplate: nil, driver.CtrlClusterObjectTemplate: nil} {
				_ = typ
				var h *dynamiccache.EnqueueWatchingObjects
				if n == driver.CtrlObjectTemplate {
					h = dynamiccache.NewEnqueueWatchingObjects(dw.Cache, &corev1alpha1.ObjectTemplate{}, driver.Scheme)
				} else {
					h = dynamiccache.NewEnqueueWatchingObjects(dw.Cache, &corev1alpha1.ClusterObjectTemplate{}, driver.Scheme)
				}
				if err := dw.Cache.Source(h).Start(context.Background(), queue{s: s, ctrl: n}); err != nil {
					panic(err)
				}
			}
			return map[string]reconcile.Reconciler{driver.CtrlObjectTemplate: ot, driver.CtrlClusterObjectTemplate: cot}
		},
	}
	e, err := scen.NewEnv(r, opts, s)
	if err != nil {
		panic(err)
	}
	s.e = e
	ctx, cl := e.W.Actor("setup")
	driver.MustCreate(ctx, cl, driver.Namespace("ns-a"), driver.Namespace("ns-b"))

	// source pool
	type pool struct {
		Kind, NS, Name string
	}
	var srcPool []pool
	for _, ns := range []string{"ns-a", "ns-b"} {
		for k := 0; k < 3; k++ {
			srcPool = append(srcPool, pool{"ConfigMap", ns, fmt.Sprintf("cm-%d", k)})
		}
		srcPool = append(srcPool, pool{"Widget", ns, "wd-0"})
	}
	srcPool = append(srcPool, pool{"ClusterWidget", "", "cw-0"})
	valSeq := 0
	newVal := func(forNS bool) string {
		if forNS {
			return []string{"ns-a", "ns-a", "ns-b"}[r.Intn(3)]
		}
		valSeq++
		if r.Intn(6) == 0 {
			return "" // an emptied value
		}
		return fmt.Sprintf("v%d", valSeq)
	}
	nsFeeding := map[pool]bool{} // sources whose value is used as the target namespace
	srcObj := func(p pool, val string) *unstructured.Unstructured {
		u := driver.U(map[string]any{"apiVersion": gvkOf(p.Kind).GroupVersion().String(), "kind": p.Kind, "metadata": map[string]any{"name": p.Name}})
		if p.NS != "" {
			u.SetNamespace(p.NS)
		}
		_ = unstructured.SetNestedField(u.Object, val, valuePath(p.Kind)...)
		return u
	}
	touchSource := func(actor string) {
		p := srcPool[r.Intn(len(srcPool))]
		g := gvkOf(p.Kind)
		cur := e.W.Store.Peek(g.GroupKind(), p.NS, p.Name)
		switch {
		case cur == nil:
			_ = e.Create(actor, false, srcObj(p, newVal(nsFeeding[p])))
		case r.Intn(4) == 0:
			e.Delete(actor, false, g, p.NS, p.Name)
		default:
			val := newVal(nsFeeding[p])
			e.Mutate(actor, false, g, p.NS, p.Name, "value := "+val, func(u *unstructured.Unstructured) {
				_ = unstructured.SetNestedField(u.Object, val, valuePath(p.Kind)...)
			})
		}
		s.flush()
	}
	for _, p := range srcPool {
		if r.Intn(3) != 0 {
			_ = e.Create("user", false, srcObj(p, newVal(false)))
		}
	}

	// templates
	templates := map[work]*tmpl{}
	genTemplate := func(name string, cluster bool) *tmpl {
		d := &tmpl{Cluster: cluster, Name: name}
		if !cluster {
			d.NS = "ns-a"
		}
		n := 1 + r.Intn(3)
		perm := r.Perm(len(srcPool))
		hostile := r.Intn(4) == 0
		for k := 0; k < n; k++ {
			p := srcPool[perm[k]]
			if !hostile && !cluster && (p.NS == "ns-b" || p.Kind == "ClusterWidget") {
				// mostly in bounds
				p = srcPool[perm[k]%4]
			}
			sr := src{Kind: p.Kind, NS: p.NS, Name: p.Name, Optional: r.Intn(2) == 0, Dest: fmt.Sprintf("k%d", k), KeyForm: r.Intn(4)}
			if !cluster && p.NS == "ns-a" && r.Intn(2) == 0 {
				sr.NS = "" // defaulted
			}
			dup := false
			for _, o := range d.Sources {
				if o.Kind == sr.Kind && o.Name == sr.Name && d.srcNS(o) == d.srcNS(sr) {
					dup = true
				}
			}
			if dup {
				continue
			}
			sr.Dest = fmt.Sprintf("k%d", len(d.Sources))
			d.Sources = append(d.Sources, sr)
		}
		if cluster {
			d.TargetKind = []string{"ConfigMap", "ClusterWidget", "Widget"}[r.Intn(3)]
			if namespaced(d.TargetKind) {
				d.TargetNS = []string{"ns-a", "ns-b"}[r.Intn(2)]
			}
		} else {
			d.TargetKind = []string{"ConfigMap", "ConfigMap", "Widget", "Widget", "ClusterWidget"}[r.Intn(5)]
			if !hostile && d.TargetKind == "ClusterWidget" {
				d.TargetKind = "ConfigMap"
			}
			switch r.Intn(8) {
			case 0, 1:
				d.TargetNS = "ns-a"
			case 2:
				if hostile {
					d.TargetNS = "ns-b"
				}
			case 3:
				if !d.Sources[0].Optional && d.Sources[0].Kind != "ClusterWidget" {
					d.TargetNS = "@k0"
					p := pool{d.Sources[0].Kind, d.srcNS(d.Sources[0]), d.Sources[0].Name}
					nsFeeding[p] = true
					// the feeding source currently holds an arbitrary value: make it a namespace
					g := gvkOf(p.Kind)
					if e.W.Store.Peek(g.GroupKind(), p.NS, p.Name) != nil {
						e.Mutate("user", false, g, p.NS, p.Name, "value := ns-a", func(u *unstructured.Unstructured) {
							_ = unstructured.SetNestedField(u.Object, "ns-a", valuePath(p.Kind)...)
						})
					}
				}
			}
		}
		if r.Intn(8) == 0 {
			d.Broken = []string{"parse", "exec"}[r.Intn(2)]
		}
		d.OmitOptional = r.Intn(2) == 0
		return d
	}
	nT := 1 + r.Intn(3)
	for k := 0; k < nT; k++ {
		d := genTemplate(fmt.Sprintf("t%d", k), r.Intn(4) == 0)
		if err := e.Create("user", false, d.object()); err != nil {
			panic(fmt.Sprintf("template rejected: %v\n%s", err, d.text()))
		}
		templates[work{d.ctrl(), d.key()}] = d
	}
	s.flush()
	keys := func() []work {
		var ks []work
		for k := range templates {
			ks = append(ks, k)
		}
		sort.Slice(ks, func(a, b int) bool { return ks[a].Ctrl+ks[a].Key.String() < ks[b].Ctrl+ks[b].Key.String() })
		return ks
	}
	steps := 30 + r.Intn(40)
	for st := 0; st < steps; st++ {
		switch x := r.Intn(20); {
		case x < 8:
			s.runOne(r)
		case x < 12:
			touchSource("user")
		case x < 13:
			s.tick()
		case x < 15:
			// edit a template: flip optional / broken / target namespace / drop or swap a source
			ks := keys()
			if len(ks) == 0 {
				break
			}
			k := ks[r.Intn(len(ks))]
			d := templates[k]
			nd := genTemplate(d.Name, d.Cluster)
			nd.TargetKind = d.TargetKind // the target identity stays: a changed kind would orphan the old target
			if !namespaced(nd.TargetKind) {
				nd.TargetNS = ""
			} else if nd.Cluster && nd.TargetNS == "" {
				nd.TargetNS = "ns-a"
			}
			if nd.Cluster {
				nd.TargetNS = d.TargetNS
			}
			nd.Rev = d.Rev + 1
			obj := nd.object()
			if e.Mutate("user", false, scen.PKO(d.kind()), d.NS, d.Name, "edit template", func(u *unstructured.Unstructured) {
				u.Object["spec"] = obj.Object["spec"]
				u.SetAnnotations(obj.GetAnnotations())
			}) {
				templates[k] = nd
			}
			s.flush()
		case x < 16:
			// drift on a target
			ks := keys()
			if len(ks) == 0 {
				break
			}
			d := templates[ks[r.Intn(len(ks))]]
			v := classify(d, kube, func(sr src) (string, bool) {
				return valueOf(sr.Kind, e.W.Store.PeekKey(d.srcKey(sr)))
			})
			if v.Class == "ok" {
				g := gvkOf(d.TargetKind)
				if r.Intn(3) == 0 {
					e.Delete("third-party", false, g, v.Target.Namespace, v.Target.Name)
				} else {
					e.Mutate("third-party", false, g, v.Target.Namespace, v.Target.Name, "drift", func(u *unstructured.Unstructured) {
						f := "spec"
						if d.TargetKind == "ConfigMap" {
							f = "data"
						}
						_ = unstructured.SetNestedField(u.Object, "drifted", f, "kube")
					})
				}
				s.flush()
			}
		case x < 17:
			// a source changes while a pass is running, right before one of the pass' API requests
			n := 1 + r.Intn(6)
			cnt := 0
			e.Arm(&scen.Armed{Desc: fmt.Sprintf("source change before request #%d of a template pass", n),
				Match: func(req *simkube.Request) bool {
					if req.Pass == nil || req.Role == "dyncache" || !strings.HasSuffix(req.Pass.Actor, "ObjectTemplate") {
						return false
					}
					cnt++
					return cnt == n
				},
				Before: func(*simkube.Request) { touchSource("racing-user") }})
		case x < 18:
			// API error on one request of a template pass
			n := 1 + r.Intn(8)
			cnt := 0
			e.Arm(&scen.Armed{Desc: fmt.Sprintf("API error at request #%d of a template pass", n), Fault: simkube.FaultErrorBefore,
				Err: fmt.Errorf("injected: etcdserver: request timed out"),
				Match: func(req *simkube.Request) bool {
					if req.Pass == nil || !strings.HasSuffix(req.Pass.Actor, "ObjectTemplate") {
						return false
					}
					cnt++
					return cnt == n
				}})
		case x < 19:
			// delete a template
			ks := keys()
			if len(ks) < 2 && r.Intn(3) != 0 {
				break
			}
			if len(ks) == 0 {
				break
			}
			k := ks[r.Intn(len(ks))]
			d := templates[k]
			if o := e.W.Store.Peek(scen.PKO(d.kind()).GroupKind(), d.NS, d.Name); o != nil {
				s.gone[pkomodel.UID(o)] = d.kind() + " " + d.key().String()
			}
			e.Delete("user", false, scen.PKO(d.kind()), d.NS, d.Name)
			delete(templates, k)
			s.flush()
			c.Count("c18_templates_deleted", 1)
		default:
			// process restart: caches and watches are gone, every template is listed again
			e.W.Restart()
			e.Logf("operator restart")
			s.pending, s.timers = nil, nil
			for _, ctrl := range []string{driver.CtrlObjectTemplate, driver.CtrlClusterObjectTemplate} {
				for _, k := range driver.Keys(e.W.Store, driver.CtrlKind[ctrl]) {
					s.enqueue(work{ctrl, k}, "initial list")
				}
			}
		}
	}
	settled := s.settle(r)
	dump := func() map[string]any {
		return map[string]any{"index": i, "stream": "c18", "steps": e.Log, "trace": e.TraceTail(300)}
	}
	c.Eval()
	if !settled {
		c.Count("c18_runs_not_settled", 1)
	} else {
		c.Count("c18_runs_settled", 1)
		// (1) at rest every live template's target equals the reference rendering of the stored sources
		for _, k := range keys() {
			d := templates[k]
			ot := e.W.Store.Peek(scen.PKO(d.kind()).GroupKind(), d.NS, d.Name)
			if ot == nil {
				continue
			}
			v := classify(d, kube, func(sr src) (string, bool) { return valueOf(sr.Kind, e.W.Store.PeekKey(d.srcKey(sr))) })
			c.Count("c18_rest_class_"+v.Class, 1)
			inv := pkomodel.FindCond(ot, corev1alpha1.ObjectTemplateInvalid)
			if v.Class != "ok" {
				if inv == nil || inv.Status != "True" {
					e.Report("C18:invalid-not-reported-at-rest:"+v.Class, fmt.Sprintf("%s %s is %s, Invalid condition at rest: %+v", d.kind(), d.key(), v.Class, inv))
				}
				continue
			}
			if inv != nil && inv.Status == "True" {
				e.Report("C18:invalid-at-rest-for-valid-template", fmt.Sprintf("%s %s: %+v", d.kind(), d.key(), inv))
			}
			tg := e.W.Store.PeekKey(v.Target)
			if tg == nil {
				e.Report("C18:target-missing-at-rest", fmt.Sprintf("%s %s: target %s does not exist", d.kind(), d.key(), v.Target))
				continue
			}
			c.Count("c18_rest_targets_compared", 1)
			if v.Retry {
				c.Count("c18_rest_targets_with_missing_optional", 1)
			}
			if got := contentOf(d.TargetKind, tg); !reflect.DeepEqual(got, v.Content) {
				e.Report("C18:target-stale-at-rest", fmt.Sprintf("%s %s: target %s holds %v, current sources render to %v", d.kind(), d.key(), v.Target, got, v.Content))
			}
			if !pkomodel.IsController(pkomodel.Ref{Group: pkomodel.Group, Kind: d.kind(), Name: d.Name, UID: pkomodel.UID(ot)}, tg, pkomodel.Native) {
				e.Report("C18:target-not-controlled-by-template", fmt.Sprintf("%s %s: target %s", d.kind(), d.key(), v.Target))
			}
		}
		// (2) deleted templates hold no watches
		for _, g := range []schema.GroupVersionKind{scen.GVKConfigMap, scen.GVKWidget, scen.GVKClusterWidget} {
			for _, o := range e.W.Cache.OwnersForGKV(g) {
				c.Count("c18_cache_owner_entries_checked", 1)
				if name, dead := s.gone[string(o.UID)]; dead {
					e.Report("C18:watch-kept-after-template-deletion", fmt.Sprintf("%s still registered as watcher of %s", name, g.Kind))
				}
			}
		}
		for uid, name := range s.gone {
			for key, o := range e.W.Store.Snapshot() {
				if strings.HasSuffix(key.Kind, "ObjectTemplate") && pkomodel.UID(o) == uid {
					e.Report("C18:deleted-template-not-finalized", fmt.Sprintf("%s still exists at rest (finalizers %v)", name, pkomodel.Finalizers(o)))
				}
			}
		}
	}
	for _, v := range e.Viol {
		c.Violation(v.Sig, v.Msg, dump())
	}
	for k, v := range e.Counts {
		c.Count(k, v)
	}
	c.Distinct(strings.Join(e.Log, "\n"))
	if i < 1 {
		c.Sample(map[string]any{"steps": e.Log})
	}
	_ = metav1.Now
}

func Run(c *vh.Ctx) {
	n := c.N(1500, 20000)
	vh.Parallel(n, func(i int) {
		if c.Skip("c18", i) {
			return
		}
		run(c, i)
	})
	for _, g := range []chkfam.Gate{{"c18_runs_settled", int64(n * 8 / 10)}, {"c18_pass_renderings_compared", 500}, {"c18_rest_targets_compared", 100},
		{"c18_pass_class_source-out-of-bounds", 20}, {"c18_pass_class_target-out-of-bounds", 20}, {"c18_pass_class_template-error", 20}, {"c18_pass_class_missing-required", 20},
		{"c18_passes_with_missing_optional_source", 50}, {"c18_rest_targets_with_missing_optional", 10}, {"c18_enqueue_cache_event", 200}, {"c18_enqueue_timer", 100},
		{"c18_templates_deleted", 20}} {
		c.GateCount(g.Counter, g.Min)
	}
	c.Finish("exploration",
		"run = 1-3 ObjectTemplates / ClusterObjectTemplates generated from descriptors (1-3 required/optional sources of namespaced and cluster-scoped kinds in and outside the template's namespace, four JSONPath spellings, target namespace absent / literal / fed by a source value, parse and execution errors) with a history of source creation / edit / deletion, template edits, target drift, template deletion, operator restarts, API errors and source changes interposed before single API requests of a running pass. Passes are scheduled only by events production would deliver (template events, dynamic cache events through the real cache source and EnqueueWatchingObjects handler, returned errors, expired RequeueAfter timers). Oracles: per pass, the reference classification of what the pass read (invalid => no target write and Invalid=True submitted; missing source => RequeueAfter; valid => written content equals the reference rendering); every write of a namespaced template's pass lies in its namespace; at rest target == reference rendering of the stored sources and Invalid matches the class; deleted templates are finalized and no longer registered in the dynamic cache. non-trivial/distinct = distinct step logs",
		append(append([]string{}, chkfam.CommonAssumptions...), "informer events are delivered synchronously after the commit (no event lag) and informer resyncs are not modelled (a lost trigger is never repaired by a resync)", "templates are the generated family (sprig default/quote/index only)"))
}
