// Package pkggen generates package contents (file trees) for the Package controller checks:
// valid by construction, or carrying exactly one defect of a known class.
package pkggen

import (
	"fmt"
	"math/rand"
	"sort"
	"strings"

	"sigs.k8s.io/yaml"
)

type Obj struct {
	Kind, Name, Phase string
	PadBytes          int  // size of a padding field (chunking)
	Templated         bool // value taken from .config.greeting
	Drop              string
}

type Spec struct {
	Name        string
	Variant     int
	Phases      []string
	Objects     []Obj
	Schema      bool // config schema: required string property "greeting"
	Scopes      []string
	Constraint  string // "", openshift, k8s-new, unique
	Components  map[string]*Spec
	Defect      string
	ManifestExt string
}

// Defect classes (the package must never reach the ObjectDeployment):
var LoadDefects = []string{"no-manifest", "both-manifest-extensions", "unparsable-manifest"}
var ValidationDefects = []string{"no-scopes", "duplicate-phases", "scope-mismatch", "object-without-phase", "object-unknown-phase", "object-missing-kind", "duplicate-object", "bad-label", "invalid-yaml", "bad-constraint-range"}

func pick[T any](r *rand.Rand, xs ...T) T { return xs[r.Intn(len(xs))] }

// Valid draws a valid package.
func Valid(r *rand.Rand, name string, variant int) *Spec {
	s := &Spec{Name: name, Variant: variant, Scopes: []string{"Namespaced", "Cluster"}, ManifestExt: pick(r, "yaml", "yml")}
	s.Phases = []string{"config", "deploy", "post"}[:1+r.Intn(3)]
	n := 1 + r.Intn(5)
	for i := 0; i < n; i++ {
		o := Obj{Kind: pick(r, "ConfigMap", "ConfigMap", "Deployment"), Name: fmt.Sprintf("%s-o%d", name, i), Phase: s.Phases[r.Intn(len(s.Phases))]}
		s.Objects = append(s.Objects, o)
	}
	if r.Intn(2) == 0 {
		s.Schema = true
		s.Objects[r.Intn(len(s.Objects))].Templated = true
	}
	return s
}

func (s *Spec) manifest() map[string]any {
	var phases []any
	for _, p := range s.Phases {
		phases = append(phases, map[string]any{"name": p})
	}
	if s.Defect == "duplicate-phases" && len(s.Phases) > 0 {
		phases = append(phases, map[string]any{"name": s.Phases[0]})
	}
	spec := map[string]any{"phases": phases}
	switch s.Defect {
	case "no-scopes":
	case "scope-mismatch":
		spec["scopes"] = []any{"Cluster"}
	default:
		var sc []any
		for _, x := range s.Scopes {
			sc = append(sc, x)
		}
		spec["scopes"] = sc
	}
	if s.Schema {
		spec["config"] = map[string]any{"openAPIV3Schema": map[string]any{
			"type": "object", "required": []any{"greeting"},
			"properties": map[string]any{"greeting": map[string]any{"type": "string"}, "count": map[string]any{"type": "integer", "default": int64(1)}},
		}}
	}
	var cons []any
	switch s.Constraint {
	case "openshift":
		// the list names every platform the package insists on; its order must not matter (shape chosen without a PRNG draw)
		switch (len(s.Objects) + s.Variant) % 3 {
		case 0:
			cons = append(cons, map[string]any{"platform": []any{"Kubernetes", "OpenShift"}})
		case 1:
			cons = append(cons, map[string]any{"platform": []any{"OpenShift"}})
		default:
			cons = append(cons, map[string]any{"platform": []any{"OpenShift", "Kubernetes"}})
		}
	case "k8s-new":
		cons = append(cons, map[string]any{"platformVersion": map[string]any{"name": "Kubernetes", "range": ">=1.99.0"}})
	case "k8s-ok":
		cons = append(cons, map[string]any{"platformVersion": map[string]any{"name": "Kubernetes", "range": ">=1.20.0"}})
	case "unique":
		cons = append(cons, map[string]any{"uniqueInScope": map[string]any{}})
	case "os-then-k8s-new": // a constraint for a platform the cluster may not be on, followed by an unmet one
		cons = append(cons, map[string]any{"platformVersion": map[string]any{"name": "OpenShift", "range": ">=4.12.0"}},
			map[string]any{"platformVersion": map[string]any{"name": "Kubernetes", "range": ">=1.99.0"}})
	case "os-then-k8s-ok":
		cons = append(cons, map[string]any{"platformVersion": map[string]any{"name": "OpenShift", "range": ">=4.12.0"}},
			map[string]any{"platformVersion": map[string]any{"name": "Kubernetes", "range": ">=1.20.0"}})
	case "k8s-ok-then-os-new":
		cons = append(cons, map[string]any{"platformVersion": map[string]any{"name": "Kubernetes", "range": ">=1.20.0"}},
			map[string]any{"platformVersion": map[string]any{"name": "OpenShift", "range": ">=9.0.0"}})
	}
	if s.Defect == "bad-constraint-range" {
		cons = append(cons, map[string]any{"platformVersion": map[string]any{"name": "Kubernetes", "range": "not a range"}})
	}
	if len(cons) > 0 {
		spec["constraints"] = cons
	}
	if len(s.Components) > 0 {
		spec["components"] = map[string]any{}
	}
	spec["availabilityProbes"] = []any{map[string]any{
		"probes":   []any{map[string]any{"condition": map[string]any{"type": "Available", "status": "True"}}},
		"selector": map[string]any{"kind": map[string]any{"group": "apps", "kind": "Deployment"}},
	}}
	return map[string]any{
		"apiVersion": "manifests.package-operator.run/v1alpha1", "kind": "PackageManifest",
		"metadata": map[string]any{"name": s.Name}, "spec": spec,
	}
}

func (s *Spec) objectYAML(i int, o Obj) string {
	md := map[string]any{"name": o.Name, "annotations": map[string]any{"package-operator.run/phase": o.Phase}}
	obj := map[string]any{"metadata": md}
	switch o.Kind {
	case "ConfigMap":
		obj["apiVersion"], obj["kind"] = "v1", "ConfigMap"
		data := map[string]any{"variant": fmt.Sprintf("v%d", s.Variant)}
		if o.PadBytes > 0 {
			data["pad"] = strings.Repeat("x", o.PadBytes)
		}
		if o.Templated {
			data["greeting"] = "@@GREETING@@"
		}
		obj["data"] = data
	default:
		obj["apiVersion"], obj["kind"] = "apps/v1", "Deployment"
		sp := map[string]any{"replicas": int64(1), "content": fmt.Sprintf("v%d", s.Variant)}
		if o.PadBytes > 0 {
			sp["pad"] = strings.Repeat("x", o.PadBytes)
		}
		if o.Templated {
			sp["greeting"] = "@@GREETING@@"
		}
		obj["spec"] = sp
	}
	switch o.Drop {
	case "phase":
		delete(md, "annotations")
	case "unknown-phase":
		md["annotations"] = map[string]any{"package-operator.run/phase": "no-such-phase"}
	case "kind":
		delete(obj, "kind")
	case "label":
		md["labels"] = map[string]any{"bad label key!": "x"}
	}
	b, err := yaml.Marshal(obj)
	if err != nil {
		panic(err)
	}
	return strings.ReplaceAll(string(b), "'@@GREETING@@'", "{{ .config.greeting | quote }}")
}

// Files renders the package as a file tree.
func (s *Spec) Files() map[string][]byte {
	files := map[string][]byte{}
	s.addFiles("", files)
	return files
}

func (s *Spec) addFiles(prefix string, files map[string][]byte) {
	mb, _ := yaml.Marshal(s.manifest())
	switch s.Defect {
	case "no-manifest":
	case "both-manifest-extensions":
		files[prefix+"manifest.yaml"], files[prefix+"manifest.yml"] = mb, mb
	case "unparsable-manifest":
		files[prefix+"manifest."+s.ManifestExt] = []byte("apiVersion: [unclosed\n  kind: {")
	default:
		files[prefix+"manifest."+s.ManifestExt] = mb
	}
	objs := append([]Obj{}, s.Objects...)
	switch s.Defect {
	case "object-without-phase":
		objs[0].Drop = "phase"
	case "object-unknown-phase":
		objs[0].Drop = "unknown-phase"
	case "object-missing-kind":
		objs[0].Drop = "kind"
	case "bad-label":
		objs[0].Drop = "label"
	case "duplicate-object":
		objs = append(objs, objs[0])
	}
	// spread over files: templated objects in .gotmpl files
	byFile := map[string][]string{}
	for i, o := range objs {
		f := fmt.Sprintf("%s%s/%s.yaml", prefix, o.Phase, strings.ToLower(o.Kind))
		if o.Templated {
			f += ".gotmpl"
		}
		if s.Defect == "duplicate-object" && i == len(objs)-1 {
			f = prefix + "dup.yaml"
		}
		byFile[f] = append(byFile[f], s.objectYAML(i, o))
	}
	for f, docs := range byFile {
		files[f] = []byte(strings.Join(docs, "---\n"))
	}
	if s.Defect == "invalid-yaml" {
		files[prefix+"broken.yaml"] = []byte("kind: ConfigMap\nmetadata: [oops\n")
	}
	files[prefix+"README.md"] = []byte("# " + s.Name)
	names := make([]string, 0, len(s.Components))
	for n := range s.Components {
		names = append(names, n)
	}
	sort.Strings(names)
	for _, n := range names {
		s.Components[n].addFiles(prefix+"components/"+n+"/", files)
	}
}
