// Package chkfam runs the shared random scenario family with a property's monitors attached.
package chkfam

import (
	"math/rand"
	"strings"

	"package-operator.run/internal/verifharness/driver"
	"package-operator.run/internal/verifharness/scen"
	"package-operator.run/internal/verifharness/vh"
)

type Gate struct {
	Counter string
	Min     int64
}

type Config struct {
	Stream            string
	NQuick, NThorough int
	Profile           func(r *rand.Rand) scen.Profile
	Options           func(p scen.Profile, r *rand.Rand) driver.Options
	Monitors          func() []scen.Monitor
	NonTrivialCounter string // a run is non-trivial when this counter is > 0
	Gates             []Gate
	Rule              string
	Assumptions       []string
	Level             string
	Before            func(e *scen.Env, g *scen.Rand)
	After             func(c *vh.Ctx, e *scen.Env, g *scen.Rand)
}

var CommonAssumptions = []string{
	"environment model simkube (DESIGN.md 2.3): real server-side-apply merge engine, CRD schemas/defaulting/validation (incl. CEL transition rules) of the tree under test, finalizers, UID/resourceVersion preconditions, garbage collector actor",
	"controllers are constructed with the production constructor calls; the manager is replaced by a PRNG-driven scheduler: any sequence of Reconcile calls is a legal schedule for level-triggered reconcilers",
	"the real dynamiccache.Cache runs over a scripted informer map whose readers serve the store filtered by the production cache label",
}

// RunStream executes the stream's scenarios; Finish is left to the caller.
func RunStream(c *vh.Ctx, cfg Config) {
	n := c.N(cfg.NQuick, cfg.NThorough)
	vh.Parallel(n, func(i int) {
		if c.Skip(cfg.Stream, i) {
			return
		}
		r := c.Rand(cfg.Stream, i)
		prof := cfg.Profile(r)
		opts := driver.Options{Hosted: prof.Hosted}
		if cfg.Options != nil {
			opts = cfg.Options(prof, r)
		}
		e, err := scen.NewEnv(r, opts, cfg.Monitors()...)
		if err != nil {
			panic(err)
		}
		g := scen.NewRandom(e, prof)
		if cfg.Before != nil {
			cfg.Before(e, g)
		}
		g.Run()
		if cfg.After != nil {
			cfg.After(c, e, g)
		}
		c.Eval()
		for _, v := range e.Viol {
			c.Violation(v.Sig, v.Msg, map[string]any{"index": i, "stream": cfg.Stream, "profile": prof, "steps": e.Log, "trace": e.TraceTail(600)})
		}
		for k, v := range e.Counts {
			c.Count(k, v)
		}
		if cfg.NonTrivialCounter == "" || e.Counts[cfg.NonTrivialCounter] > 0 {
			c.Distinct(strings.Join(e.Log, "\n"))
		}
		if i < 1 {
			c.Sample(map[string]any{"stream": cfg.Stream, "profile": prof, "steps": e.Log})
		}
	})
}

func Run(c *vh.Ctx, cfg Config) {
	RunStream(c, cfg)
	for _, g := range cfg.Gates {
		c.GateCount(g.Counter, g.Min)
	}
	level := cfg.Level
	if level == "" {
		level = "exploration"
	}
	c.Finish(level, cfg.Rule, append(append([]string{}, CommonAssumptions...), cfg.Assumptions...))
}

type DeployConfig struct {
	Stream            string
	NQuick, NThorough int
	Profile           func(r *rand.Rand) scen.DeployProfile
	Options           func(p scen.DeployProfile, r *rand.Rand) driver.Options
	Monitors          func() []scen.Monitor
	NonTrivialCounter string
	After             func(c *vh.Ctx, e *scen.Env, g *scen.DeployRand)
}

// RunDeployStream executes ObjectDeployment scenarios.
func RunDeployStream(c *vh.Ctx, cfg DeployConfig) {
	n := c.N(cfg.NQuick, cfg.NThorough)
	vh.Parallel(n, func(i int) {
		if c.Skip(cfg.Stream, i) {
			return
		}
		r := c.Rand(cfg.Stream, i)
		prof := cfg.Profile(r)
		opts := driver.Options{}
		if cfg.Options != nil {
			opts = cfg.Options(prof, r)
		}
		e, err := scen.NewEnv(r, opts, cfg.Monitors()...)
		if err != nil {
			panic(err)
		}
		g := scen.NewDeploy(e, prof)
		g.Run()
		if cfg.After != nil {
			cfg.After(c, e, g)
		}
		c.Eval()
		for _, v := range e.Viol {
			c.Violation(v.Sig, v.Msg, map[string]any{"index": i, "stream": cfg.Stream, "profile": prof, "steps": e.Log, "trace": e.TraceTail(600)})
		}
		for k, v := range e.Counts {
			c.Count(k, v)
		}
		if cfg.NonTrivialCounter == "" || e.Counts[cfg.NonTrivialCounter] > 0 {
			c.Distinct(strings.Join(e.Log, "\n"))
		}
		if i < 1 {
			c.Sample(map[string]any{"stream": cfg.Stream, "profile": prof, "steps": e.Log})
		}
	})
}
