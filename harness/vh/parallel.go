package vh

import (
	"runtime"
	"sync"
	"sync/atomic"
)

// Parallel runs f(0..n-1) on GOMAXPROCS workers (dynamic distribution).
func Parallel(n int, f func(i int)) {
	w := runtime.GOMAXPROCS(0)
	if w > n {
		w = n
	}
	if w < 1 {
		return
	}
	var next int64 = -1
	var wg sync.WaitGroup
	for k := 0; k < w; k++ {
		wg.Add(1)
		go func() {
			defer wg.Done()
			for {
				i := int(atomic.AddInt64(&next, 1))
				if i >= n {
					return
				}
				f(i)
			}
		}()
	}
	wg.Wait()
}
