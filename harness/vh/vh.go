// Package vh is the common verdict / evidence / known-findings plumbing of the
// verification harness. It is copied into a scratch copy of the tree under test
// (internal/verifharness/vh) by /verif/bin/check.
package vh

import (
	"bufio"
	"encoding/json"
	"fmt"
	"hash/fnv"
	"math/rand"
	"os"
	"path/filepath"
	"sort"
	"strconv"
	"strings"
	"sync"
	"time"
)

type Ctx struct {
	Prop   string
	Seed   int64
	Tier   string
	Replay string // replay file given on the command line ("" = normal run)
	// ReplayIdx is the case index stored in the replay file (-1 = none / normal run)
	ReplayIdx    int
	ReplayStream string

	mu            sync.Mutex
	start         time.Time
	evaluations   int64
	distinct      map[string]struct{}
	counters      map[string]int64
	samples       []any
	maxSamples    int
	gates         []gate
	violations    map[string]string // signature -> replay path (unlisted ones)
	known         map[string]string // signature -> description (from file)
	knownHit      map[string]bool
	extra         map[string]any
	nviol         int
	distinctExtra int64
}

type gate struct {
	name string
	ok   bool
	info string
}

func Start(prop string) *Ctx {
	c := &Ctx{
		Prop: prop, Seed: 1, Tier: "quick", start: time.Now(),
		distinct: map[string]struct{}{}, counters: map[string]int64{},
		violations: map[string]string{}, known: map[string]string{}, knownHit: map[string]bool{},
		extra: map[string]any{}, maxSamples: 6,
	}
	if s := os.Getenv("VERIF_SEED"); s != "" {
		if v, err := strconv.ParseInt(s, 10, 64); err == nil {
			c.Seed = v
		}
	}
	if t := os.Getenv("VERIF_TIER"); t == "thorough" {
		c.Tier = "thorough"
	}
	c.Replay = os.Getenv("VERIF_REPLAY")
	c.ReplayIdx = -1
	if c.Replay != "" {
		c.loadReplay()
	}
	c.loadKnown()
	return c
}

// loadReplay reads seed, tier and case index from a replay file written by Violation.
func (c *Ctx) loadReplay() {
	b, err := os.ReadFile(c.Replay)
	if err != nil {
		fmt.Printf("NOTE cannot read replay file: %v\n", err)
		return
	}
	var f struct {
		Seed   int64  `json:"seed"`
		Tier   string `json:"tier"`
		Replay struct {
			Index  *int   `json:"index"`
			Stream string `json:"stream"`
		} `json:"replay"`
	}
	if err := json.Unmarshal(b, &f); err != nil {
		fmt.Printf("NOTE cannot parse replay file: %v\n", err)
		return
	}
	c.Seed = f.Seed
	if f.Tier == "thorough" {
		c.Tier = "thorough"
	}
	if f.Replay.Index != nil {
		c.ReplayIdx = *f.Replay.Index
		c.ReplayStream = f.Replay.Stream
	}
}

// Skip tells a case loop whether to skip case i of the given stream (only in replay mode).
func (c *Ctx) Skip(stream string, i int) bool {
	if c.Replay == "" {
		return false
	}
	if c.ReplayIdx < 0 {
		return false
	}
	return i != c.ReplayIdx || (c.ReplayStream != "" && c.ReplayStream != stream)
}

func (c *Ctx) Quick() bool { return c.Tier != "thorough" }

// N picks the case count for the tier.
func (c *Ctx) N(quick, thorough int) int {
	if c.Quick() {
		return quick
	}
	return thorough
}

// Rand returns a PRNG determined by (seed, stream, index).
func (c *Ctx) Rand(stream string, idx int) *rand.Rand {
	h := fnv.New64a()
	fmt.Fprintf(h, "%d|%s|%d", c.Seed, stream, idx)
	return rand.New(rand.NewSource(int64(h.Sum64()))) //nolint:gosec
}

func (c *Ctx) loadKnown() {
	p := os.Getenv("VERIF_KNOWN")
	if p == "" {
		return
	}
	f, err := os.Open(p)
	if err != nil {
		return
	}
	defer f.Close()
	sc := bufio.NewScanner(f)
	sc.Buffer(make([]byte, 1<<20), 1<<20)
	for sc.Scan() {
		line := strings.TrimSpace(sc.Text())
		// known: property=C19 signature=<sig> <what fails>
		if !strings.HasPrefix(line, "known:") {
			continue
		}
		fields := strings.Fields(strings.TrimPrefix(line, "known:"))
		if len(fields) < 2 || fields[0] != "property="+c.Prop || !strings.HasPrefix(fields[1], "signature=") {
			continue
		}
		c.known[strings.TrimPrefix(fields[1], "signature=")] = strings.Join(fields[2:], " ")
	}
}

func (c *Ctx) Eval() { c.mu.Lock(); c.evaluations++; c.mu.Unlock() }

func (c *Ctx) EvalN(n int) { c.mu.Lock(); c.evaluations += int64(n); c.mu.Unlock() }

// Distinct records a distinct non-trivial case key.
func (c *Ctx) Distinct(key string) {
	h := fnv.New64a()
	h.Write([]byte(key))
	k := strconv.FormatUint(h.Sum64(), 16)
	c.mu.Lock()
	c.distinct[k] = struct{}{}
	c.mu.Unlock()
}

func (c *Ctx) Count(name string, n int) {
	c.mu.Lock()
	c.counters[name] += int64(n)
	c.mu.Unlock()
}

func (c *Ctx) Counter(name string) int64 {
	c.mu.Lock()
	defer c.mu.Unlock()
	return c.counters[name]
}

func (c *Ctx) Sample(v any) {
	c.mu.Lock()
	if len(c.samples) < c.maxSamples {
		c.samples = append(c.samples, v)
	}
	c.mu.Unlock()
}

func (c *Ctx) SetExtra(k string, v any) { c.mu.Lock(); c.extra[k] = v; c.mu.Unlock() }

// Gate records a minimum-observation requirement. A failed gate makes the run inconclusive (exit 2).
func (c *Ctx) Gate(name string, ok bool, info string) {
	c.mu.Lock()
	c.gates = append(c.gates, gate{name, ok, info})
	c.mu.Unlock()
}

// GateCount is Gate(name, counter >= min).
func (c *Ctx) GateCount(counter string, min int64) {
	v := c.Counter(counter)
	c.Gate(counter, v >= min, fmt.Sprintf("%d (need >= %d)", v, min))
}

// Violation reports a monitor firing. sig identifies the failing input class / call
// site / history shape (no spaces); listed signatures become KNOWN-FINDING lines.
func (c *Ctx) Violation(sig, msg string, replay any) {
	sig = strings.ReplaceAll(sig, " ", "_")
	c.mu.Lock()
	defer c.mu.Unlock()
	c.nviol++
	if desc, ok := c.known[sig]; ok {
		if !c.knownHit[sig] {
			c.knownHit[sig] = true
			fmt.Printf("KNOWN-FINDING: property=%s %s %s\n", c.Prop, sig, desc)
		}
		return
	}
	if _, dup := c.violations[sig]; dup {
		return
	}
	dir := os.Getenv("VERIF_REPLAY_DIR")
	if dir == "" {
		dir = "."
	}
	_ = os.MkdirAll(dir, 0o755)
	path := filepath.Join(dir, fmt.Sprintf("%d-%d.json", c.Seed, len(c.violations)+1))
	body := map[string]any{"property": c.Prop, "signature": sig, "message": msg, "seed": c.Seed, "tier": c.Tier, "replay": replay}
	b, err := json.MarshalIndent(body, "", " ")
	if err != nil {
		b = []byte(fmt.Sprintf("{\"property\":%q,\"signature\":%q,\"message\":%q}", c.Prop, sig, msg))
	}
	_ = os.WriteFile(path, b, 0o644)
	c.violations[sig] = path
	fmt.Printf("VIOLATION property=%s replay=%s\n", c.Prop, path)
	fmt.Printf("NOTE signature=%s %s\n", sig, firstLine(msg))
}

func firstLine(s string) string {
	if i := strings.IndexByte(s, '\n'); i >= 0 {
		s = s[:i]
	}
	if len(s) > 400 {
		s = s[:400]
	}
	return s
}

func (c *Ctx) Violations() int { c.mu.Lock(); defer c.mu.Unlock(); return len(c.violations) }

// Finish writes the evidence file and exits with the verdict.
func (c *Ctx) Finish(level, rule string, assumptions []string) {
	c.mu.Lock()
	cov := map[string]any{
		"evaluations":         c.evaluations,
		"distinct_nontrivial": int64(len(c.distinct)) + c.distinctExtra,
		"rule":                rule,
		"samples":             c.samples,
		"counters":            c.counters,
	}
	for k, v := range c.extra {
		cov[k] = v
	}
	gatesOK := true
	gl := []map[string]any{}
	for _, g := range c.gates {
		gl = append(gl, map[string]any{"gate": g.name, "met": g.ok, "observed": g.info})
		if !g.ok {
			gatesOK = false
		}
	}
	cov["gates"] = gl
	knownHit := []string{}
	for k := range c.knownHit {
		knownHit = append(knownHit, k)
	}
	sort.Strings(knownHit)
	cov["known_findings_reproduced"] = knownHit
	nviol := len(c.violations)
	if len(c.samples) == 0 {
		cov["samples"] = []any{"(no sample recorded)"}
	}
	ev := map[string]any{
		"property_id": c.Prop,
		"tier":        c.Tier,
		"seed":        c.Seed,
		"level":       level,
		"coverage":    cov,
		"assumptions": assumptions,
		"wall_s":      time.Since(c.start).Seconds(),
		"violations":  nviol,
	}
	c.mu.Unlock()
	if p := os.Getenv("VERIF_EVIDENCE"); p != "" {
		b, err := json.MarshalIndent(ev, "", " ")
		if err == nil {
			_ = os.WriteFile(p, b, 0o644)
		} else {
			fmt.Printf("NOTE evidence marshal error: %v\n", err)
		}
	}
	fmt.Printf("SUMMARY property=%s tier=%s seed=%d evaluations=%d distinct_nontrivial=%d violations=%d wall_s=%.1f\n",
		c.Prop, c.Tier, c.Seed, c.evaluations, int64(len(c.distinct))+c.distinctExtra, nviol, time.Since(c.start).Seconds())
	keys := make([]string, 0, len(c.counters))
	for k := range c.counters {
		keys = append(keys, k)
	}
	sort.Strings(keys)
	var sb strings.Builder
	for _, k := range keys {
		fmt.Fprintf(&sb, " %s=%d", k, c.counters[k])
	}
	fmt.Printf("SUMMARY counters:%s\n", sb.String())
	if nviol > 0 {
		os.Exit(1)
	}
	if !gatesOK && c.Replay == "" {
		for _, g := range c.gates {
			if !g.ok {
				fmt.Printf("GATE not met: %s observed %s\n", g.name, g.info)
			}
		}
		fmt.Printf("INCONCLUSIVE property=%s minimum-observation gate not met\n", c.Prop)
		os.Exit(2)
	}
	os.Exit(0)
}

// JSON is a helper for compact samples.
func JSON(v any) string {
	b, err := json.Marshal(v)
	if err != nil {
		return fmt.Sprintf("%v", v)
	}
	return string(b)
}

// DistinctAdd adds n cases that are distinct by construction (exhaustive enumerations).
func (c *Ctx) DistinctAdd(prefix string, n int) {
	c.mu.Lock()
	c.distinctExtra += int64(n)
	c.mu.Unlock()
	_ = prefix
}
