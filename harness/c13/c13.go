// Package c13 decides property C13 (package rendering is deterministic and loses or
// duplicates no object) by running the exported render pipeline exactly as
// PackageDeployer.Deploy and the CLI do, many times per generated package, and comparing
// the result with the intended outcome the package was generated from.
package c13

import (
	"bytes"
	"context"
	"encoding/json"
	"fmt"
	"reflect"
	"sort"
	"strings"
	"text/template"

	"github.com/Masterminds/sprig/v3"
	metav1 "k8s.io/apimachinery/pkg/apis/meta/v1"

	corev1alpha1 "package-operator.run/apis/core/v1alpha1"
	"package-operator.run/internal/apis/manifests"
	"package-operator.run/internal/packages"
	"package-operator.run/internal/transform"
	"package-operator.run/internal/utils"
	"package-operator.run/internal/verifharness/vh"
)

type renderResult struct {
	spec corev1alpha1.ObjectSetTemplateSpec
	json string
	hash string
	err  error
}

func renderOnce(ctx context.Context, gc *genCase) (res renderResult) {
	defer func() {
		if p := recover(); p != nil {
			res.err = fmt.Errorf("PANIC: %v", p)
		}
	}()
	files := packages.Files{}
	for k, v := range gc.Files {
		files[k] = append([]byte{}, v...)
	}
	raw := &packages.RawPackage{Files: files}
	pkg, err := packages.DefaultStructuralLoader.LoadComponent(ctx, raw, gc.Component)
	if err != nil {
		res.err = fmt.Errorf("load: %w", err)
		return
	}
	env := manifests.PackageEnvironment{Kubernetes: manifests.PackageEnvironmentKubernetes{Version: gc.Ctx.K8sVersion}}
	if gc.Ctx.OpenShift {
		env.OpenShift = &manifests.PackageEnvironmentOpenShift{Version: gc.Ctx.OpenShiftVersion}
	}
	cfg := map[string]any{}
	b, _ := json.Marshal(gc.Ctx.Config)
	_ = json.Unmarshal(b, &cfg)
	tctx := packages.PackageRenderContext{
		Package: manifests.TemplateContextPackage{
			TemplateContextObjectMeta: manifests.TemplateContextObjectMeta{Name: gc.Ctx.PkgName, Namespace: gc.Ctx.PkgNamespace},
			Image:                     "quay.io/org/pkg:v1",
		},
		Config: cfg, Images: gc.Ctx.Images, Environment: env,
	}
	validators := append(packages.PackageValidatorList{}, packages.DefaultPackageValidators...)
	validators = append(validators, packages.PackageScopeValidator(manifests.PackageManifestScopeNamespaced))
	inst, err := packages.RenderPackageInstance(ctx, pkg, tctx, validators, packages.DefaultObjectValidators)
	if err != nil {
		res.err = fmt.Errorf("render: %w", err)
		return
	}
	res.spec = packages.RenderObjectSetTemplateSpec(inst)
	tmpl := corev1alpha1.ObjectSetTemplate{
		Metadata: metav1.ObjectMeta{Labels: map[string]string{lblPkg: inst.Manifest.Name, lblInst: gc.Ctx.PkgName}},
		Spec:     res.spec,
	}
	jb, err := json.Marshal(res.spec)
	if err != nil {
		res.err = fmt.Errorf("marshal: %w", err)
		return
	}
	res.json = string(jb)
	res.hash = utils.ComputeFNV32Hash(tmpl, nil)
	return
}

func norm(v any) any {
	b, err := json.Marshal(v)
	if err != nil {
		return fmt.Sprintf("!marshal: %v", err)
	}
	var out any
	_ = json.Unmarshal(b, &out)
	return out
}

func errClass(err error) string {
	if err == nil {
		return ""
	}
	s := err.Error()
	if i := strings.IndexByte(s, ':'); i > 0 {
		s = s[:i]
	}
	return s
}

// conservation compares the rendered template with the expectation. Returns "" when it matches.
func conservation(gc *genCase, spec corev1alpha1.ObjectSetTemplateSpec, exp [][]*intended) string {
	// phases
	var wantPhases []string
	for _, ph := range gc.Phases {
		for _, l := range exp {
			if l[0].Phase == ph.Name {
				wantPhases = append(wantPhases, ph.Name)
			}
		}
	}
	var gotPhases []string
	for _, p := range spec.Phases {
		gotPhases = append(gotPhases, p.Name)
	}
	if !reflect.DeepEqual(wantPhases, gotPhases) {
		return fmt.Sprintf("phases: want %v got %v", wantPhases, gotPhases)
	}
	for i, p := range spec.Phases {
		var class string
		for _, ph := range gc.Phases {
			if ph.Name == p.Name {
				class = ph.Class
			}
		}
		if p.Class != class {
			return fmt.Sprintf("phase %s class: want %q got %q", p.Name, class, p.Class)
		}
		if len(p.Objects) != len(exp[i]) {
			var names []string
			for _, o := range p.Objects {
				names = append(names, o.Object.GetKind()+"/"+o.Object.GetName())
			}
			var want []string
			for _, o := range exp[i] {
				want = append(want, fmt.Sprintf("%v/%v", o.Obj["kind"], o.Obj["metadata"].(map[string]any)["name"]))
			}
			return fmt.Sprintf("phase %s: want objects %v got %v", p.Name, want, names)
		}
		for j, got := range p.Objects {
			want := exp[i][j]
			wobj := norm(want.Obj).(map[string]any)
			wm := wobj["metadata"].(map[string]any)
			lbls, _ := wm["labels"].(map[string]any)
			if lbls == nil {
				lbls = map[string]any{}
			}
			lbls[lblPkg] = gc.ManifestName
			lbls[lblInst] = gc.Ctx.PkgName
			wm["labels"] = lbls
			gobj := norm(got.Object.Object)
			if !reflect.DeepEqual(wobj, gobj) {
				return fmt.Sprintf("phase %s object #%d differs:\n want %s\n got  %s", p.Name, j, vh.JSON(wobj), vh.JSON(gobj))
			}
			// annotations nil (not {}) when none remain
			if a := got.Object.GetAnnotations(); a != nil && len(a) == 0 {
				return fmt.Sprintf("phase %s object #%d: empty non-nil annotations map", p.Name, j)
			}
			for _, ca := range []string{annPhase, annCondMap, annCEL, annCP} {
				if _, has := got.Object.GetAnnotations()[ca]; has {
					return fmt.Sprintf("phase %s object #%d still carries control annotation %s", p.Name, j, ca)
				}
			}
			if string(got.CollisionProtection) != want.CP {
				return fmt.Sprintf("phase %s object #%d collisionProtection: want %q got %q", p.Name, j, want.CP, got.CollisionProtection)
			}
			if len(got.ConditionMappings) != len(want.CondMap) {
				return fmt.Sprintf("phase %s object #%d conditionMappings: want %v got %v", p.Name, j, want.CondMap, got.ConditionMappings)
			}
			for k, cm := range got.ConditionMappings {
				if cm.SourceType != want.CondMap[k][0] || cm.DestinationType != want.CondMap[k][1] {
					return fmt.Sprintf("phase %s object #%d conditionMappings: want %v got %v", p.Name, j, want.CondMap, got.ConditionMappings)
				}
			}
		}
	}
	return ""
}

// multisetKey lists kind/name of all rendered objects (for the loss/duplication verdict independent of order).
func multiset(spec corev1alpha1.ObjectSetTemplateSpec) []string {
	var l []string
	for _, p := range spec.Phases {
		for _, o := range p.Objects {
			l = append(l, p.Name+":"+o.Object.GetKind()+"/"+o.Object.GetName())
		}
	}
	sort.Strings(l)
	return l
}

func wantMultiset(gc *genCase) []string {
	var l []string
	for _, o := range gc.Objects {
		if o.Included {
			l = append(l, fmt.Sprintf("%s:%v/%v", o.Phase, o.Obj["kind"], o.Obj["metadata"].(map[string]any)["name"]))
		}
	}
	sort.Strings(l)
	return l
}

func Run(c *vh.Ctx) {
	ctx := context.Background()
	n := c.N(300, 5000)
	R := c.N(20, 100)
	vh.Parallel(n, func(i int) {
		if c.Skip("c13", i) {
			return
		}
		r := c.Rand("c13", i)
		gc := generate(r)
		fileDump := map[string]string{}
		for k, v := range gc.Files {
			fileDump[k] = string(v)
		}
		dump := map[string]any{"index": i, "stream": "c13", "files": fileDump, "component": gc.Component, "context": gc.Ctx}
		first := renderOnce(ctx, gc)
		c.Eval()
		if first.err != nil && strings.HasPrefix(first.err.Error(), "PANIC") {
			c.Violation("panic-in-render", first.err.Error(), dump)
			return
		}
		// (1) determinism over R renders (each one ranges over fresh maps => fresh iteration orders)
		distinctOutputs := map[string]bool{first.json + "|" + first.hash + "|" + errClass(first.err): true}
		for k := 1; k < R; k++ {
			rr := renderOnce(ctx, gc)
			c.Count("renders", 1)
			key := rr.json + "|" + rr.hash + "|" + errClass(rr.err)
			if !distinctOutputs[key] {
				distinctOutputs[key] = true
			}
		}
		if len(distinctOutputs) > 1 {
			var hs []string
			for k := range distinctOutputs {
				parts := strings.Split(k, "|")
				hs = append(hs, parts[len(parts)-2]+"/"+parts[len(parts)-1])
			}
			sort.Strings(hs)
			dump["distinct_outputs"] = hs
			c.Violation("nondeterministic-render", fmt.Sprintf("%d different results (hash/error class %v) over %d renders of one package", len(distinctOutputs), hs, R), dump)
		}
		// (2) conservation against the construction
		if first.err != nil {
			c.Violation("valid-package-rejected:"+errClass(first.err), first.err.Error(), dump)
			return
		}
		if got, want := multiset(first.spec), wantMultiset(gc); !reflect.DeepEqual(got, want) {
			c.Violation("object-lost-or-duplicated", fmt.Sprintf("want %v\n got %v", want, got), dump)
		} else {
			d1 := conservation(gc, first.spec, gc.expected(true))
			if d1 != "" {
				if d2 := conservation(gc, first.spec, gc.expected(false)); d2 != "" {
					c.Violation("template-differs-from-intended", d1, dump)
				} else {
					c.Count("order_plain_byte_collation", 1)
				}
			}
		}
		nIncl := 0
		for _, o := range gc.Objects {
			if o.Included {
				nIncl++
			} else {
				c.Count("objects_filtered_out", 1)
			}
		}
		c.Count("objects_expected", nIncl)
		for f := range gc.Features {
			c.Count("feature_"+f, 1)
		}
		if len(gc.Objects) > 1 {
			c.Distinct(first.json + fmt.Sprint(len(gc.Files)))
		}
		if i < 2 {
			c.Sample(map[string]any{"files": fileDump, "component": gc.Component, "hash": first.hash, "phases": multiset(first.spec)})
		}
	})
	sandbox(c)
	for _, f := range []string{"multi-document", "template-file", "helper-file", "include", "cel-annotation-false", "conditional-path", "components", "document-empty-after-templating", "empty-document", "whole-doc-conditional", "named-condition", "getFile"} {
		c.GateCount("feature_"+f, 5)
	}
	c.GateCount("objects_filtered_out", 20)
	c.Finish("exploration",
		"case = package file tree generated backwards from an intended ObjectSet template (manifest, objects, filters, templates, helpers, components) with PRNG(seed,index); each rendered R times in-process through LoadComponent -> RenderPackageInstance (default validators) -> RenderObjectSetTemplateSpec -> FNV hash; non-trivial = package with more than one object; distinct = distinct rendered templates",
		[]string{
			"every render ranges over freshly built Go maps, so R renders exercise R map-iteration orders (Go randomises each range)",
			"file order: both the documented component-wise collation and plain byte order of paths are accepted; within a file document order is required",
			"template names are defined once; generated templates do not use sprig functions whose result depends on map iteration (keys/values without sort)",
			"sandbox: deny-set of impure sprig functions written independently of the allow-list in internal/transform",
		})
}

// impure sprig functions: clock, randomness, environment, network, randomised crypto
var denySet = []string{
	"now", "ago", "date", "htmlDate", "toDate", "mustToDate",
	"randAlphaNum", "randAlpha", "randAscii", "randNumeric", "randBytes", "randInt", "shuffle", "uuidv4",
	"env", "expandenv", "getHostByName",
	"genPrivateKey", "genCA", "genCAWithKey", "genSelfSignedCert", "genSelfSignedCertWithKey", "genSignedCert", "genSignedCertWithKey",
	"encryptAES", "bcrypt", "htpasswd",
}

func sandbox(c *vh.Ctx) {
	files := map[string][]byte{"a.txt": []byte("x")}
	parseable := func(name string) (ok bool) {
		defer func() {
			if recover() != nil {
				ok = false
			}
		}()
		t := template.New("pkg").Option("missingkey=error")
		t = t.Funcs(transform.SprigFuncs(t)).Funcs(transform.FileFuncs(files)).Funcs(template.FuncMap{"cel": func(string) (bool, error) { return true, nil }})
		_, err := t.Parse("{{ " + name + " }}")
		return err == nil
	}
	all := map[string]bool{}
	for k := range sprig.FuncMap() {
		all[k] = true
	}
	for k := range sprig.TxtFuncMap() {
		all[k] = true
	}
	for k := range sprig.HermeticTxtFuncMap() {
		all[k] = true
	}
	deny := map[string]bool{}
	for _, d := range denySet {
		deny[d] = true
		if !all[d] {
			c.Count("sandbox_deny_entries_unknown_to_sprig", 1)
		}
	}
	nParse := 0
	for name := range all {
		c.Eval()
		c.Count("sandbox_functions_probed", 1)
		if parseable(name) {
			nParse++
			if deny[name] {
				c.Violation("impure-template-function-reachable:"+name, "template function "+name+" (clock/random/env/network) is accepted by the package template engine", map[string]any{"function": name})
			}
		}
	}
	c.Count("sandbox_functions_reachable", nParse)
	// behavioural: host files are unreachable, only package files are
	t := template.New("pkg").Option("missingkey=error")
	t = t.Funcs(transform.SprigFuncs(t)).Funcs(transform.FileFuncs(files))
	for _, p := range []string{"/etc/passwd", "../a.txt", "/proc/self/environ", "b.txt"} {
		tt, err := t.Clone()
		if err != nil {
			continue
		}
		tt, err = tt.Parse(fmt.Sprintf(`{{ getFile %q }}`, p))
		if err != nil {
			continue
		}
		var buf bytes.Buffer
		if err := tt.Execute(&buf, nil); err == nil {
			c.Violation("getFile-outside-package", fmt.Sprintf("getFile %q returned %q", p, buf.String()), map[string]any{"path": p})
		}
		c.Count("sandbox_getfile_outside_probes", 1)
	}
	c.GateCount("sandbox_functions_probed", 100)
	c.GateCount("sandbox_functions_reachable", 50)
}
