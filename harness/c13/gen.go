package c13

import (
	"fmt"
	"math/rand"
	"sort"
	"strings"

	"sigs.k8s.io/yaml"

	"package-operator.run/internal/apis/manifests"
)

// The generator draws the INTENDED result first (manifest, objects, which of them survive
// the filters) and then encodes it as a package file tree.

const (
	annPhase   = "package-operator.run/phase"
	annCondMap = "package-operator.run/condition-map"
	annCEL     = "package-operator.run/condition"
	annCP      = "package-operator.run/collision-protection"
	lblPkg     = "package-operator.run/package"
	lblInst    = "package-operator.run/instance"
)

type renderCtx struct {
	PkgName, PkgNamespace string
	Config                map[string]any
	Images                map[string]string
	K8sVersion            string
	OpenShift             bool
	OpenShiftVersion      string
}

type celExpr struct {
	Expr  string
	Truth func(c *renderCtx, conds map[string]bool) bool
}

var celPool = []celExpr{
	{"config.flagA", func(c *renderCtx, _ map[string]bool) bool { return c.Config["flagA"].(bool) }},
	{"!config.flagA", func(c *renderCtx, _ map[string]bool) bool { return !c.Config["flagA"].(bool) }},
	{"config.flagB && true", func(c *renderCtx, _ map[string]bool) bool { return c.Config["flagB"].(bool) }},
	{"has(environment.openShift)", func(c *renderCtx, _ map[string]bool) bool { return c.OpenShift }},
	{`environment.kubernetes.version.startsWith("v1.27")`, func(c *renderCtx, _ map[string]bool) bool { return strings.HasPrefix(c.K8sVersion, "v1.27") }},
	{`images.img != ""`, func(*renderCtx, map[string]bool) bool { return true }},
	{`environment.kubernetes.version == "never"`, func(*renderCtx, map[string]bool) bool { return false }},
	{"true", func(*renderCtx, map[string]bool) bool { return true }},
	{"false", func(*renderCtx, map[string]bool) bool { return false }},
}

type intended struct {
	Obj      map[string]any // final object as it must appear in the template (without package labels)
	Phase    string
	Included bool
	CP       string
	CondMap  [][2]string
	File     string
	DocIdx   int
	Text     string // document text as written to the file
}

type genCase struct {
	Files        map[string][]byte
	Component    string
	ManifestName string
	Ctx          renderCtx
	Phases       []manifests.PackageManifestPhase
	Objects      []*intended // all intended objects of the rendered component
	Features     map[string]bool
	ExpectError  bool
}

func pick[T any](r *rand.Rand, xs ...T) T { return xs[r.Intn(len(xs))] }

var dirPool = []string{"", "", "", "a/", "a/b/", "a-b/", "rbac/", "gated/", "gated/"}

var namePool = []string{"cm", "role", "Role", "a", "A", "zz", "m-1"}

type tmplVal struct {
	expr  string // go template expression producing the value (quoted when string)
	value any
}

// templated values with their ground truth
func (g *gen) tmplString() tmplVal {
	c := &g.ctx
	name := c.Config["name"].(string)
	switch g.r.Intn(12) {
	case 0:
		return tmplVal{`{{ .config.name | quote }}`, name}
	case 1:
		return tmplVal{`{{ .package.metadata.name | quote }}`, c.PkgName}
	case 2:
		return tmplVal{`{{ .package.metadata.namespace | quote }}`, c.PkgNamespace}
	case 3:
		return tmplVal{`{{ .images.img | quote }}`, c.Images["img"]}
	case 4:
		return tmplVal{`{{ index .images "side" | quote }}`, c.Images["side"]}
	case 5:
		return tmplVal{`{{ .environment.kubernetes.version | quote }}`, c.K8sVersion}
	case 6:
		g.feature("include")
		g.needHelper = true
		return tmplVal{`{{ include "hlp.upper" .config.name | quote }}`, strings.ToUpper(name)}
	case 7:
		return tmplVal{`{{ .config.name | upper | trunc 3 | quote }}`, trunc(strings.ToUpper(name), 3)}
	case 8:
		g.feature("getFile")
		g.needBlob = true
		return tmplVal{`{{ getFile "static/blob.txt" | trim | quote }}`, "blob-content"}
	case 9:
		g.feature("fromYAML")
		g.needValues = true
		return tmplVal{`{{ (fromYAML (getFile "static/values.txt")).key | quote }}`, "from-values"}
	case 10:
		g.feature("include")
		g.needHelper = true
		return tmplVal{`{{ include "hlp.wrap" (dict "v" .config.name "p" .package.metadata.name) | quote }}`, c.PkgName + "/" + name}
	default:
		g.feature("cel-func")
		v := "no"
		if c.Config["flagA"].(bool) {
			v = "yes"
		}
		return tmplVal{`{{ if cel "config.flagA" }}"yes"{{ else }}"no"{{ end }}`, v}
	}
}

func trunc(s string, n int) string {
	if len(s) > n {
		return s[:n]
	}
	return s
}

type gen struct {
	r          *rand.Rand
	ctx        renderCtx
	features   map[string]bool
	needHelper bool
	needBlob   bool
	needValues bool
	seq        int
}

func (g *gen) feature(f string) { g.features[f] = true }

// genComponent generates one package (root or component) under the given path prefix.
func (g *gen) genComponent(prefix, manifestName string, withComponents bool) (files map[string][]byte, phases []manifests.PackageManifestPhase, objs []*intended) {
	r := g.r
	files = map[string][]byte{}
	phaseNames := []string{"crds", "rbac", "config", "deploy", "post"}
	r.Shuffle(len(phaseNames), func(i, j int) { phaseNames[i], phaseNames[j] = phaseNames[j], phaseNames[i] })
	phaseNames = phaseNames[:2+r.Intn(4)]
	for _, p := range phaseNames {
		ph := manifests.PackageManifestPhase{Name: p}
		if r.Intn(6) == 0 {
			ph.Class = "default"
		}
		phases = append(phases, ph)
	}
	// named conditions and conditional paths
	conds := map[string]bool{}
	type namedCond struct{ Name, Expression string }
	var named []namedCond
	for i := 0; i < r.Intn(3); i++ {
		ce := celPool[r.Intn(len(celPool))]
		n := fmt.Sprintf("c%d_%s", i, pick(r, "x", "gate", "Y"))
		named = append(named, namedCond{n, ce.Expr})
		conds[n] = ce.Truth(&g.ctx, nil)
		g.feature("named-condition")
	}
	type condPath struct{ Glob, Expression string }
	var paths []condPath
	// several conditional paths may be false at the same time; a file is left out if any glob with a false expression matches it
	pathGate := map[string]bool{}
	for _, dir := range []string{"gated/", "rbac/", "a-b/"} {
		if r.Intn(3) != 0 {
			continue
		}
		var expr string
		inc := true
		if len(named) > 0 && r.Intn(2) == 0 {
			nc := named[r.Intn(len(named))]
			expr = "cond." + nc.Name
			inc = conds[nc.Name]
		} else {
			ce := celPool[r.Intn(len(celPool))]
			expr = ce.Expr
			inc = ce.Truth(&g.ctx, conds)
		}
		pathGate[dir] = inc
		paths = append(paths, condPath{dir + "**", expr})
		g.feature("conditional-path")
		if !inc {
			g.feature("conditional-path-false")
		}
	}
	if len(paths) > 1 {
		g.feature("several-conditional-paths")
		r.Shuffle(len(paths), func(i, j int) { paths[i], paths[j] = paths[j], paths[i] })
	}

	// objects
	nObj := 1 + r.Intn(10)
	type fileDoc struct {
		text string
		obj  *intended
	}
	fileDocs := map[string][]fileDoc{}
	fileIsTmpl := map[string]bool{}
	usedNames := map[string]bool{}
	for i := 0; i < nObj; i++ {
		g.seq++
		kind := pick(r, [2]string{"v1", "ConfigMap"}, [2]string{"v1", "Secret"}, [2]string{"apps/v1", "Deployment"}, [2]string{"v1", "ServiceAccount"})
		name := fmt.Sprintf("%s-%d", strings.ToLower(kind[1][:3]), g.seq)
		if usedNames[kind[1]+name] {
			continue
		}
		usedNames[kind[1]+name] = true
		dir := dirPool[r.Intn(len(dirPool))]
		fname := namePool[r.Intn(len(namePool))] + pick(r, ".yaml", ".yaml", ".yml")
		templated := r.Intn(2) == 0
		path := dir + fname
		if templated {
			path += ".gotmpl"
		}
		// a file is either static or template; keep consistent with what exists
		if _, ok := fileDocs[path]; !ok {
			other := strings.TrimSuffix(path, ".gotmpl")
			if templated {
				if _, clash := fileDocs[other]; clash {
					path = other
					templated = false
				}
			} else if _, clash := fileDocs[path+".gotmpl"]; clash {
				path += ".gotmpl"
				templated = true
			}
		}
		fileIsTmpl[path] = templated

		in := &intended{Phase: phaseNames[r.Intn(len(phaseNames))], Included: true}
		meta := map[string]any{"name": name}
		if r.Intn(3) != 0 {
			meta["namespace"] = pick(r, "ns-a", "ns-b")
		}
		ann := map[string]any{annPhase: in.Phase}
		finalAnn := map[string]any{}
		lbls := map[string]any{}
		// manifests copied from another package may still carry its package labels: rendering has to replace them
		// (decided by the object index, not by a PRNG draw, so that the other generated content stays as it was)
		switch i % 5 {
		case 2:
			lbls[lblPkg] = "some-other-package"
		case 4:
			lbls[lblInst] = "some-other-instance"
		}
		subst := map[string]string{}
		ph := func(tv tmplVal) any {
			if !templated {
				return tv.value
			}
			tok := fmt.Sprintf("@@T%d@@", len(subst))
			subst[tok] = tv.expr
			return tok
		}
		// CEL annotation
		if r.Intn(3) == 0 {
			var expr string
			var truth bool
			if len(named) > 0 && r.Intn(2) == 0 {
				n := named[r.Intn(len(named))]
				expr, truth = "cond."+n.Name, conds[n.Name]
			} else {
				ce := celPool[r.Intn(len(celPool))]
				expr, truth = ce.Expr, ce.Truth(&g.ctx, conds)
			}
			ann[annCEL] = expr
			in.Included = in.Included && truth
			g.feature("cel-annotation")
			if !truth {
				g.feature("cel-annotation-false")
			}
		}
		if r.Intn(4) == 0 {
			in.CP = pick(r, "Prevent", "IfNoController", "None")
			ann[annCP] = in.CP
			g.feature("collision-protection-annotation")
		}
		if r.Intn(4) == 0 {
			in.CondMap = [][2]string{{"Available", "my.org/Available"}}
			s := "Available => my.org/Available"
			if r.Intn(2) == 0 {
				in.CondMap = append(in.CondMap, [2]string{"Ready", "my.org/Ready"})
				s += "\nReady => my.org/Ready"
			}
			ann[annCondMap] = s
			g.feature("condition-map-annotation")
		}
		if r.Intn(3) == 0 {
			finalAnn["example.com/note"] = pick(r, "keep-me", "x")
			ann["example.com/note"] = finalAnn["example.com/note"]
			if templated && r.Intn(2) == 0 {
				tv := g.tmplString()
				finalAnn["example.com/tv"] = tv.value
				ann["example.com/tv"] = ph(tv)
			}
			g.feature("extra-annotation")
		}
		if r.Intn(3) == 0 {
			lbls["app"] = pick(r, "a", "b")
			if templated && r.Intn(2) == 0 {
				tv := tmplVal{`{{ .config.name | quote }}`, g.ctx.Config["name"]}
				lbls["cfg"] = ph(tv)
			}
		}
		finalLbls := map[string]any{}
		obj := map[string]any{"apiVersion": kind[0], "kind": kind[1]}
		final := map[string]any{"apiVersion": kind[0], "kind": kind[1]}
		data := map[string]any{}
		finalData := map[string]any{}
		for k := 0; k < 1+r.Intn(3); k++ {
			key := fmt.Sprintf("k%d", k)
			tv := g.tmplString()
			if !templated {
				tv = tmplVal{"", pick(r, "v1", "hello", "static-"+name)}
			}
			finalData[key] = tv.value
			data[key] = ph(tv)
		}
		switch kind[1] {
		case "ConfigMap":
			obj["data"], final["data"] = data, finalData
		case "Secret":
			obj["stringData"], final["stringData"] = data, finalData
		case "Deployment":
			rep := any(int64(1 + r.Intn(3)))
			frep := rep
			if templated && r.Intn(2) == 0 {
				frep = int64(g.ctx.Config["replicas"].(int) + 1)
				tok := fmt.Sprintf("@@T%d@@", len(subst))
				subst[tok] = `{{ add .config.replicas 1 }}`
				rep = tok
			}
			obj["spec"] = map[string]any{"replicas": rep, "template": map[string]any{"metadata": map[string]any{"annotations": data}}}
			final["spec"] = map[string]any{"replicas": frep, "template": map[string]any{"metadata": map[string]any{"annotations": finalData}}}
		default:
			lbls["sa"] = "true"
		}
		for k, v := range lbls {
			if s, ok := v.(string); ok && strings.HasPrefix(s, "@@T") {
				finalLbls[k] = g.ctx.Config["name"]
			} else {
				finalLbls[k] = v
			}
		}
		fmeta := map[string]any{"name": name}
		if ns, ok := meta["namespace"]; ok {
			fmeta["namespace"] = ns
		}
		meta["annotations"] = ann
		if len(finalAnn) > 0 {
			fmeta["annotations"] = finalAnn
		}
		if len(lbls) > 0 {
			meta["labels"] = lbls
		}
		if len(finalLbls) > 0 {
			fmeta["labels"] = finalLbls
		}
		obj["metadata"] = meta
		final["metadata"] = fmeta
		in.Obj = final

		yb, err := yaml.Marshal(obj)
		if err != nil {
			panic(err)
		}
		text := string(yb)
		for tok, expr := range subst {
			text = strings.ReplaceAll(text, "'"+tok+"'", expr)
			text = strings.ReplaceAll(text, `"`+tok+`"`, expr)
			text = strings.ReplaceAll(text, tok, expr)
		}
		// whole-document conditional (template files only)
		if templated && r.Intn(4) == 0 {
			cond := pick(r, "flagA", "flagB")
			text = fmt.Sprintf("{{- if .config.%s }}\n%s{{- end }}\n", cond, text)
			in.Included = in.Included && g.ctx.Config[cond].(bool)
			g.feature("whole-doc-conditional")
			if !g.ctx.Config[cond].(bool) {
				g.feature("document-empty-after-templating")
			}
		}
		for gd, inc := range pathGate {
			if strings.HasPrefix(dir, gd) {
				in.Included = in.Included && inc
			}
		}
		in.File = prefix + strings.TrimSuffix(path, ".gotmpl")
		in.Text = text
		fileDocs[path] = append(fileDocs[path], fileDoc{text, in})
		objs = append(objs, in)
	}
	// write files: documents joined by separators, with empty / comment-only documents sprinkled in
	for path, docs := range fileDocs {
		var sb strings.Builder
		if r.Intn(3) == 0 {
			sb.WriteString("---\n")
		}
		idx := 0
		for i, d := range docs {
			if i > 0 {
				sb.WriteString("---\n")
			}
			if r.Intn(6) == 0 {
				sb.WriteString(pick(r, "# just a comment\n", "\n", "# a: b\n# c\n"))
				sb.WriteString("---\n")
				g.feature("empty-document")
			}
			d.obj.DocIdx = idx
			idx++
			sb.WriteString(d.text)
		}
		if r.Intn(4) == 0 {
			sb.WriteString("---\n")
		}
		if len(docs) > 1 {
			g.feature("multi-document")
		}
		if fileIsTmpl[path] {
			g.feature("template-file")
		}
		files[prefix+path] = []byte(sb.String())
	}
	if g.needHelper {
		files[prefix+"_helpers.yaml.gotmpl"] = []byte(`{{- define "hlp.upper" -}}{{ . | upper }}{{- end -}}
{{- define "hlp.wrap" -}}{{ .p }}/{{ .v }}{{- end -}}
`)
		g.feature("helper-file")
	}
	if g.needBlob {
		files[prefix+"static/blob.txt"] = []byte("blob-content\n")
	}
	if g.needValues {
		files[prefix+"static/values.txt"] = []byte("key: from-values\nother: 1\n")
	}
	g.needHelper, g.needBlob, g.needValues = false, false, false
	// files that must be ignored
	if r.Intn(3) == 0 {
		files[prefix+"README.md"] = []byte("# readme\nkind: NotAnObject\n")
		files[prefix+"docs/notes.txt"] = []byte("apiVersion: v1\nkind: ConfigMap\n")
		g.feature("ignored-files")
	}
	// manifest
	m := map[string]any{
		"apiVersion": "manifests.package-operator.run/v1alpha1",
		"kind":       "PackageManifest",
		"metadata":   map[string]any{"name": manifestName},
	}
	spec := map[string]any{"scopes": []any{"Namespaced", "Cluster"}}
	var pl []any
	for _, p := range phases {
		e := map[string]any{"name": p.Name}
		if p.Class != "" {
			e["class"] = p.Class
		}
		pl = append(pl, e)
	}
	spec["phases"] = pl
	if r.Intn(2) == 0 {
		spec["availabilityProbes"] = []any{map[string]any{
			"probes":   []any{map[string]any{"condition": map[string]any{"type": "Available", "status": "True"}}},
			"selector": map[string]any{"kind": map[string]any{"group": "apps", "kind": "Deployment"}},
		}}
	}
	filter := map[string]any{}
	if len(named) > 0 {
		var l []any
		for _, n := range named {
			l = append(l, map[string]any{"name": n.Name, "expression": n.Expression})
		}
		filter["conditions"] = l
	}
	if len(paths) > 0 {
		var l []any
		for _, p := range paths {
			l = append(l, map[string]any{"glob": p.Glob, "expression": p.Expression})
		}
		filter["paths"] = l
	}
	if len(filter) > 0 {
		spec["filter"] = filter
	}
	if withComponents {
		spec["components"] = map[string]any{}
	}
	m["spec"] = spec
	// templates present => a test template context is required by the static-files validator only if absent;
	// keep `test` empty so static files are validated on their own (as for real packages without tests)
	mb, err := yaml.Marshal(m)
	if err != nil {
		panic(err)
	}
	files[prefix+"manifest."+pick(r, "yaml", "yml")] = mb
	return files, phases, objs
}

func generate(r *rand.Rand) *genCase {
	g := &gen{r: r, features: map[string]bool{}}
	g.ctx = renderCtx{
		PkgName: pick(r, "inst", "my-pkg"), PkgNamespace: pick(r, "ns-x", "default"),
		Config: map[string]any{
			"name": pick(r, "alpha", "Beta", "gamma-1"), "replicas": 1 + r.Intn(4),
			"flagA": r.Intn(2) == 0, "flagB": r.Intn(2) == 0,
		},
		Images:     map[string]string{"img": "quay.io/org/app@sha256:" + strings.Repeat("ab", 32), "side": "quay.io/org/side@sha256:" + strings.Repeat("cd", 32)},
		K8sVersion: pick(r, "v1.27.3", "v1.29.0"), OpenShift: r.Intn(2) == 0, OpenShiftVersion: "4.14.1",
	}
	gc := &genCase{Ctx: g.ctx, Features: g.features}
	multi := r.Intn(5) == 0
	files, phases, objs := g.genComponent("", "root-pkg", multi)
	gc.Files = files
	gc.Phases, gc.Objects, gc.ManifestName = phases, objs, "root-pkg"
	if multi {
		g.feature("components")
		// component names where one is a prefix of another must stay separate packages
		comps := [][]string{{"frontend"}, {"frontend", "backend"}, {"backend", "backend-db"}, {"api-gateway", "api", "frontend"}}[r.Intn(4)]
		target := ""
		if r.Intn(3) != 0 {
			target = comps[r.Intn(len(comps))]
		}
		for _, cn := range comps {
			cf, cph, cobjs := g.genComponent("components/"+cn+"/", cn, false)
			for k, v := range cf {
				gc.Files[k] = v
			}
			if cn == target {
				gc.Phases, gc.Objects, gc.ManifestName, gc.Component = cph, cobjs, cn, cn
				for _, o := range cobjs {
					o.File = strings.TrimPrefix(o.File, "components/"+cn+"/")
				}
			}
		}
	}
	return gc
}

// expected phases: per manifest phase (in manifest order, empty ones dropped) the included objects.
// Objects of one file stay in document order; files are ordered by path. Two collations are accepted:
// component-wise ('/' before every other byte, the documented order) and plain byte order.
func (gc *genCase) expected(componentWise bool) [][]*intended {
	key := func(p string) string {
		if componentWise {
			return strings.ReplaceAll(p, "/", "\x00")
		}
		return p
	}
	var out [][]*intended
	for _, ph := range gc.Phases {
		var l []*intended
		for _, o := range gc.Objects {
			if o.Included && o.Phase == ph.Name {
				l = append(l, o)
			}
		}
		sort.SliceStable(l, func(i, j int) bool {
			if l[i].File != l[j].File {
				return key(l[i].File) < key(l[j].File)
			}
			return l[i].DocIdx < l[j].DocIdx
		})
		if len(l) > 0 {
			out = append(out, l)
		}
	}
	return out
}
