package c13

import "math/rand"

// Seed is a valid generated package with its render context, exported for the hostile-input check (C19).
type Seed struct {
	Files                 map[string][]byte
	Component             string
	Config                map[string]any
	Images                map[string]string
	PkgName, PkgNamespace string
	K8sVersion            string
	OpenShift             bool
}

func GenerateSeed(r *rand.Rand) Seed {
	gc := generate(r)
	return Seed{Files: gc.Files, Component: gc.Component, Config: gc.Ctx.Config, Images: gc.Ctx.Images,
		PkgName: gc.Ctx.PkgName, PkgNamespace: gc.Ctx.PkgNamespace, K8sVersion: gc.Ctx.K8sVersion, OpenShift: gc.Ctx.OpenShift}
}
