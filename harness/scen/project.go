package scen

import (
	"fmt"
	"sort"
	"strings"

	"package-operator.run/internal/verifharness/pkomodel"
	"package-operator.run/internal/verifharness/simkube"
)

// Projection is the part of the end state that must not depend on how it was reached: names, UIDs,
// resourceVersions, timestamps and messages are projected away.
type Projection map[string]any

func projectStore(s *simkube.Store, prefix string, withSlices bool, out Projection) {
	uidName := map[string]string{}
	snap := s.Snapshot()
	for k, o := range snap {
		uidName[pkomodel.Str(o, "metadata", "uid")] = k.Kind + "/" + k.Name
	}
	for k, o := range snap {
		id := prefix + k.Kind + " " + k.Namespace + "/" + k.Name
		switch {
		case k.Kind == "Namespace":
		case k.Group == pkomodel.Group && (strings.HasSuffix(k.Kind, "ObjectSet") || strings.HasSuffix(k.Kind, "ObjectSetPhase")):
			ow := pkomodel.OwnerFrom(o)
			conds := map[string]string{}
			for _, c := range ow.Conditions {
				conds[c.Type] = c.Status + "/" + c.Reason
			}
			var co []string
			for _, c := range ow.ControllerOf {
				co = append(co, fmt.Sprintf("%s/%s %s/%s", c.Group, c.Kind, c.Namespace, c.Name))
			}
			sort.Strings(co)
			out[id] = map[string]any{"revision": ow.Revision, "paused": ow.Paused, "archived": ow.Archived, "deleting": ow.Deleting, "conditions": conds, "controllerOf": co, "finalizers": ow.Finalizers}
		case k.Group == pkomodel.Group && strings.HasSuffix(k.Kind, "ObjectSlice"):
			if withSlices {
				out[id] = "present"
			}
		case k.Group == pkomodel.Group:
			// deployments, packages, templates: condition statuses only
			conds := map[string]string{}
			for _, c := range pkomodel.Conditions(o) {
				conds[c.Type] = c.Status
			}
			out[id] = map[string]any{"conditions": conds}
		default:
			content := map[string]any{}
			for f, v := range o {
				if f != "metadata" && f != "status" && f != "apiVersion" && f != "kind" {
					content[f] = v
				}
			}
			var owners []string
			for _, st := range []pkomodel.Strategy{pkomodel.Native, pkomodel.Annotation} {
				for _, r := range pkomodel.Refs(o, st) {
					n := uidName[r.UID]
					if n == "" {
						n = r.Kind + "/" + r.Name + "(gone)"
					}
					owners = append(owners, fmt.Sprintf("%s controller=%v", n, r.Controller))
				}
			}
			sort.Strings(owners)
			lbl := pkomodel.Labels(o)
			ann := pkomodel.Annotations(o)
			out[id] = map[string]any{"content": content, "owners": owners, "revision": ann[pkomodel.RevisionAnnotation], "cacheLabel": lbl[pkomodel.CacheLabel],
				"deleting": pkomodel.Deleting(o), "finalizers": pkomodel.Finalizers(o)}
		}
	}
}

// Project renders the comparable end state of the world.
func (e *Env) Project(withSlices bool) Projection {
	out := Projection{}
	projectStore(e.W.Store, "", withSlices, out)
	if e.W.Target != e.W.Store {
		projectStore(e.W.Target, "hosted:", withSlices, out)
	}
	return out
}

// WriteOrder lists, per managed object, the effective writes PKO issued, in order.
func (e *Env) WriteOrder() map[string][]string {
	out := map[string][]string{}
	add := func(prefix string, tr []*simkube.Request) {
		for _, r := range tr {
			if !r.IsWrite() || r.DryRun || r.Pass == nil || r.GVK.Group == pkomodel.Group || r.Err != nil || !r.Changed {
				continue
			}
			id := prefix + r.GVK.Kind + " " + r.Key.Namespace + "/" + r.Key.Name
			out[id] = append(out[id], r.Verb+" by "+r.Pass.Actor+" "+r.Pass.Key.Name)
		}
	}
	add("", e.W.Store.Trace())
	if e.W.Target != e.W.Store {
		add("hosted:", e.W.Target.Trace())
	}
	return out
}

// Diff lists the keys on which two projections differ.
func Diff(a, b Projection) []string {
	var out []string
	keys := map[string]bool{}
	for k := range a {
		keys[k] = true
	}
	for k := range b {
		keys[k] = true
	}
	for k := range keys {
		av, bv := fmt.Sprintf("%v", a[k]), fmt.Sprintf("%v", b[k])
		if av != bv {
			out = append(out, fmt.Sprintf("%s:\n      A: %s\n      B: %s", k, av, bv))
		}
	}
	sort.Strings(out)
	return out
}
