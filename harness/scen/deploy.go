package scen

import (
	"fmt"
	"math/rand"

	apierrors "k8s.io/apimachinery/pkg/api/errors"
	metav1 "k8s.io/apimachinery/pkg/apis/meta/v1"
	"k8s.io/apimachinery/pkg/apis/meta/v1/unstructured"
	"k8s.io/apimachinery/pkg/runtime/schema"
	"k8s.io/apimachinery/pkg/types"
	"sigs.k8s.io/controller-runtime/pkg/client"

	corev1alpha1 "package-operator.run/apis/core/v1alpha1"
	"package-operator.run/internal/utils"
	"package-operator.run/internal/verifharness/driver"
	"package-operator.run/internal/verifharness/pkomodel"
	"package-operator.run/internal/verifharness/simkube"
)

// DeployProfile steers the ObjectDeployment scenario family (C07, C08, C09, C10, C14).
type DeployProfile struct {
	Steps     int
	Cluster   bool
	Weights   map[string]int
	Limit     int // revisionHistoryLimit (-1 = unset)
	Delegated float64
	Templates int
	Quiesce   int
}

var DefaultDeployWeights = map[string]int{
	"reconcile": 40, "round": 3, "workload": 14, "gc": 2,
	"edit-template": 6, "noop-edit": 2, "pause-deployment": 2, "unpause-deployment": 3, "pause-set": 2, "unpause-set": 2,
	"adv-delete": 3, "fault": 3, "plant-collision": 1, "restart": 1,
}

func DeployWeightsWith(over map[string]int) map[string]int {
	out := map[string]int{}
	for k, v := range DefaultDeployWeights {
		out[k] = v
	}
	for k, v := range over {
		out[k] = v
	}
	return out
}

type DeployRand struct {
	E         *Env
	P         DeployProfile
	R         *rand.Rand
	NS        string
	DepNS     string
	DepKind   string
	SetKind   string
	Name      string
	Templates []corev1alpha1.ObjectSetTemplateSpec
	Current   int
	Pool      []ident
}

func NewDeploy(e *Env, p DeployProfile) *DeployRand {
	g := &DeployRand{E: e, P: p, R: e.R, NS: "ns", DepNS: "ns", DepKind: "ObjectDeployment", SetKind: "ObjectSet", Name: "app"}
	if p.Cluster {
		g.DepNS, g.DepKind, g.SetKind = "", "ClusterObjectDeployment", "ClusterObjectSet"
	}
	if g.P.Weights == nil {
		g.P.Weights = DefaultDeployWeights
	}
	if g.P.Templates == 0 {
		g.P.Templates = 3
	}
	ctx, c := e.W.Actor("setup")
	driver.MustCreate(ctx, c, driver.Namespace(g.NS))
	g.Pool = []ident{
		{scenGVK("ConfigMap"), "cm-1", false}, {scenGVK("ConfigMap"), "cm-2", false}, {scenGVK("ConfigMap"), "cm-3", false},
		{scenGVK("Deployment"), "dep-1", false}, {scenGVK("Deployment"), "dep-2", false},
	}
	for i := 0; i < g.P.Templates; i++ {
		g.Templates = append(g.Templates, g.template(i))
	}
	return g
}

func (g *DeployRand) template(i int) corev1alpha1.ObjectSetTemplateSpec {
	r := g.R
	n := 1 + r.Intn(3)
	phases := make([]corev1alpha1.ObjectSetTemplatePhase, n)
	for k := range phases {
		phases[k].Name = fmt.Sprintf("phase-%d", k+1)
		if r.Float64() < g.P.Delegated {
			phases[k].Class = "default"
		}
	}
	for _, id := range g.Pool {
		if r.Intn(3) == 0 {
			continue
		}
		k := r.Intn(n)
		ns := g.NS
		if !g.P.Cluster && r.Intn(2) == 0 {
			ns = ""
		}
		phases[k].Objects = append(phases[k].Objects, ObjectSetObject(Object(id.GVK, ns, id.Name, fmt.Sprintf("tmpl-%d", i)), ""))
	}
	var ps []corev1alpha1.ObjectSetTemplatePhase
	for _, p := range phases {
		if len(p.Objects) > 0 {
			ps = append(ps, p)
		}
	}
	if len(ps) == 0 {
		ps = []corev1alpha1.ObjectSetTemplatePhase{{Name: "phase-1", Objects: []corev1alpha1.ObjectSetObject{
			ObjectSetObject(Object(GVKConfigMap, g.NS, "cm-1", fmt.Sprintf("tmpl-%d", i)), ""),
		}}}
	}
	if r.Intn(3) == 0 {
		// a template without probes; submitted with an explicitly empty list (see setTemplate)
		return corev1alpha1.ObjectSetTemplateSpec{Phases: ps}
	}
	return corev1alpha1.ObjectSetTemplateSpec{Phases: ps, AvailabilityProbes: []corev1alpha1.ObjectSetProbe{AvailableProbe(GVKDeployment)}}
}

func (g *DeployRand) deployment(tmpl corev1alpha1.ObjectSetTemplateSpec) client.Object {
	lbl := map[string]string{"app.kubernetes.io/instance": g.Name}
	spec := corev1alpha1.ObjectDeploymentSpec{
		Selector: metav1.LabelSelector{MatchLabels: lbl},
		Template: corev1alpha1.ObjectSetTemplate{Metadata: metav1.ObjectMeta{Labels: lbl}, Spec: tmpl},
	}
	if g.P.Limit >= 0 {
		l := int32(g.P.Limit)
		spec.RevisionHistoryLimit = &l
	}
	if g.P.Cluster {
		return &corev1alpha1.ClusterObjectDeployment{ObjectMeta: metav1.ObjectMeta{Name: g.Name},
			Spec: corev1alpha1.ClusterObjectDeploymentSpec{RevisionHistoryLimit: spec.RevisionHistoryLimit, Selector: spec.Selector, Template: spec.Template}}
	}
	return &corev1alpha1.ObjectDeployment{ObjectMeta: metav1.ObjectMeta{Name: g.Name, Namespace: g.DepNS}, Spec: spec}
}

func (g *DeployRand) sets() []*pkomodel.Owner {
	var out []*pkomodel.Owner
	for _, k := range driver.Keys(g.E.W.Store, g.SetKind) {
		if o := pkomodel.OwnerFrom(g.E.W.Store.Peek(PKO(g.SetKind).GroupKind(), k.Namespace, k.Name)); o != nil {
			out = append(out, o)
		}
	}
	return out
}

func (g *DeployRand) weightedOp() string {
	total := 0
	keys := SortedKeys(g.P.Weights)
	for _, k := range keys {
		total += g.P.Weights[k]
	}
	x := g.R.Intn(total)
	for _, k := range keys {
		x -= g.P.Weights[k]
		if x < 0 {
			return k
		}
	}
	return "reconcile"
}

func (g *DeployRand) setTemplate(i int, what string) {
	tm := g.Templates[i]
	g.E.Mutate("user", false, PKO(g.DepKind), g.DepNS, g.Name, what, func(u *unstructured.Unstructured) {
		m := driver.U(map[string]any{"apiVersion": "v1", "kind": "x", "spec": pkomodel.Canon(tm)}).Object["spec"]
		if len(tm.AvailabilityProbes) == 0 {
			// users write explicitly empty lists; the API keeps them as [] while PKO's own objects drop them (omitempty)
			m.(map[string]any)["availabilityProbes"] = []any{}
		}
		_ = unstructured.SetNestedField(u.Object, m, "spec", "template", "spec")
	})
}

func (g *DeployRand) Step() {
	e, r := g.E, g.R
	switch op := g.weightedOp(); op {
	case "reconcile":
		work := e.W.AllWork()
		if len(work) > 0 {
			wk := work[r.Intn(len(work))]
			e.Reconcile(wk.Ctrl, wk.Key)
		}
	case "round":
		e.Round()
	case "gc":
		e.GC()
	case "restart":
		e.W.Restart()
		e.Logf("operator restart")
	case "workload":
		var c []ident
		for _, id := range g.Pool {
			if id.GVK.Kind == "Deployment" {
				c = append(c, id)
			}
		}
		id := pickS(r, c)
		e.WorkloadStatus(false, id.GVK, g.NS, id.Name, pickS(r, []string{"ready", "ready", "ready", "notready", "stale"}))
	case "edit-template":
		i := r.Intn(len(g.Templates))
		g.Current = i
		g.setTemplate(i, fmt.Sprintf("template := #%d", i))
	case "noop-edit":
		if r.Intn(2) == 0 {
			g.setTemplate(g.Current, fmt.Sprintf("re-submit template #%d (no-op)", g.Current))
		} else {
			e.Mutate("user", false, PKO(g.DepKind), g.DepNS, g.Name, "touch label (no-op for the template)", func(u *unstructured.Unstructured) {
				l := u.GetLabels()
				if l == nil {
					l = map[string]string{}
				}
				l["example.com/touched"] = fmt.Sprint(r.Intn(1000))
				u.SetLabels(l)
			})
		}
	case "pause-deployment", "unpause-deployment":
		v := op == "pause-deployment"
		e.Mutate("user", false, PKO(g.DepKind), g.DepNS, g.Name, fmt.Sprintf("spec.paused=%v", v), func(u *unstructured.Unstructured) {
			_ = unstructured.SetNestedField(u.Object, v, "spec", "paused")
		})
	case "pause-set", "unpause-set":
		sets := g.sets()
		if len(sets) == 0 {
			return
		}
		s := pickS(r, sets)
		if s.Archived {
			return
		}
		state := "Paused"
		if op == "unpause-set" {
			state = "Active"
		}
		e.Mutate("user", false, PKO(g.SetKind), g.DepNS, s.Name, "lifecycleState="+state+" (directly on the revision)", func(u *unstructured.Unstructured) {
			_ = unstructured.SetNestedField(u.Object, state, "spec", "lifecycleState")
			if state == "Active" {
				a := u.GetAnnotations()
				delete(a, pkomodel.PausedByParentAnnot)
				u.SetAnnotations(a)
			}
		})
	case "adv-delete":
		id := pickS(r, g.Pool)
		e.Delete("adversary", false, id.GVK, g.NS, id.Name)
	case "fault":
		kind := r.Intn(4)
		verbs := pickS(r, [][]string{{"create"}, {"update"}, {"create", "update", "patch", "delete"}})
		skip := r.Intn(3)
		a := &Armed{Match: func(req *simkube.Request) bool {
			if !req.IsWrite() || req.DryRun {
				return false
			}
			for _, v := range verbs {
				if v == req.Verb {
					if skip > 0 {
						skip--
						return false
					}
					return true
				}
			}
			return false
		}}
		switch kind {
		case 0:
			a.Fault, a.Err, a.Desc = simkube.FaultErrorBefore, apierrors.NewConflict(schema.GroupResource{Resource: "objects"}, "injected", fmt.Errorf("injected conflict")), "injected 409"
		case 1:
			a.Fault, a.Err, a.Desc = simkube.FaultErrorBefore, apierrors.NewInternalError(fmt.Errorf("injected")), "injected 500"
		case 2:
			a.Fault, a.Desc = simkube.FaultLostResponse, "effect committed, response lost"
		default:
			a.Fault, a.Desc = simkube.FaultCrash, "operator crash"
		}
		a.Desc += fmt.Sprintf(" at upcoming %v write (skip %d)", verbs, skip)
		e.Arm(a)
	case "plant-collision":
		// an ObjectSet with the name the controller will pick for some template already exists
		d := pkomodel.DeploymentFrom(e.W.Store.Peek(PKO(g.DepKind).GroupKind(), g.DepNS, g.Name))
		if d == nil {
			return
		}
		i := r.Intn(len(g.Templates))
		tmpl := d.Template
		tmpl.Spec = g.Templates[i]
		name := g.Name + "-" + utils.ComputeFNV32Hash(tmpl, d.CollisionCount)
		if e.W.Store.Peek(PKO(g.SetKind).GroupKind(), g.DepNS, name) != nil {
			return
		}
		// the clashing ObjectSet is never one the deployment could take for its own up-to-date revision:
		// variant 0: different spec; 1: different spec and archived; 2: same spec but controlled by someone else
		variant := r.Intn(3)
		spec := g.Templates[(i+1)%len(g.Templates)]
		if variant == 2 {
			spec = g.Templates[i]
		}
		obj := NewObjectSet(g.DepNS, name, spec.Phases, spec.AvailabilityProbes)
		obj.SetLabels(map[string]string{"example.com/planted": "true"})
		if variant == 2 {
			t := true
			obj.SetOwnerReferences([]metav1.OwnerReference{{APIVersion: "apps/v1", Kind: "Deployment", Name: "someone-else", UID: types.UID("foreign-owner"), Controller: &t}})
		}
		err := e.Create("adversary", false, obj)
		e.Logf("  planted %s for template #%d (variant %d, err=%v)", name, i, variant, err)
		if err == nil && variant == 1 {
			e.Mutate("adversary", false, PKO(g.SetKind), g.DepNS, name, "archive planted set", func(u *unstructured.Unstructured) {
				_ = unstructured.SetNestedField(u.Object, "Archived", "spec", "lifecycleState")
			})
		}
		e.Count("collisions_planted")
	}
}

func (g *DeployRand) Run() {
	if err := g.E.Create("user", false, g.deployment(g.Templates[0])); err != nil {
		panic(err)
	}
	for i := 0; i < g.P.Steps; i++ {
		g.Step()
	}
}
