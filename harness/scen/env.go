// Package scen holds the scenario machinery shared by the whole-system checks: an Env
// wrapping a driver.World with monitors attached, object builders, and the actors
// (workload controllers, adversary, user, garbage collector).
package scen

import (
	"context"
	"encoding/json"
	"fmt"
	"math/rand"
	"sort"
	"strings"
	"sync"

	metav1 "k8s.io/apimachinery/pkg/apis/meta/v1"
	"k8s.io/apimachinery/pkg/apis/meta/v1/unstructured"
	"k8s.io/apimachinery/pkg/runtime/schema"
	"k8s.io/apimachinery/pkg/types"
	"sigs.k8s.io/controller-runtime/pkg/client"

	corev1alpha1 "package-operator.run/apis/core/v1alpha1"
	"package-operator.run/internal/verifharness/driver"
	"package-operator.run/internal/verifharness/pkomodel"
	"package-operator.run/internal/verifharness/simkube"
)

// Monitor observes one scenario execution.
type Monitor interface {
	// OnRequest runs inside the store's commit section for every request (any store of the world).
	OnRequest(e *Env, req *simkube.Request)
	// OnPassEnd runs after a controller pass returned (or crashed).
	OnPassEnd(e *Env, pr driver.PassResult)
}

type Violation struct {
	Sig, Msg string
}

type Env struct {
	W        *driver.World
	R        *rand.Rand
	Monitors []Monitor
	mu       sync.Mutex
	Log      []string // executed steps
	Viol     []Violation
	Counts   map[string]int
	Ctx      context.Context
	// passOwner caches the owner a pass belongs to
	stepNo int
	// armed faults / interposed adversary actions, consumed by onRequestStart
	armed  []*Armed
	inHook bool
}

// Armed is a one-shot reaction to a future request of a controller pass.
type Armed struct {
	Desc  string
	Match func(req *simkube.Request) bool
	// Fault to inject (FaultNone = none) and its error
	Fault simkube.FaultKind
	Err   error
	// Before runs right before the request executes (no store lock held): an actor scheduled at API-call granularity.
	Before func(req *simkube.Request)
	Fired  bool
}

// Arm registers a one-shot reaction.
func (e *Env) Arm(a *Armed) {
	e.armed = append(e.armed, a)
	e.Logf("armed: %s", a.Desc)
}

func (e *Env) onRequestStart(req *simkube.Request) (simkube.FaultKind, error) {
	if e.inHook || req.Pass == nil {
		return simkube.FaultNone, nil
	}
	for i, a := range e.armed {
		if a.Fired || !a.Match(req) {
			continue
		}
		a.Fired = true
		e.armed = append(e.armed[:i], e.armed[i+1:]...)
		e.Logf("fired: %s at %s %s %s/%s of pass %s %s", a.Desc, req.Verb, req.GVK.Kind, req.Key.Namespace, req.Key.Name, req.Pass.Actor, req.Pass.Key)
		e.Count("armed_fired")
		if a.Before != nil {
			e.inHook = true
			a.Before(req)
			e.inHook = false
		}
		return a.Fault, a.Err
	}
	return simkube.FaultNone, nil
}

func NewEnv(r *rand.Rand, o driver.Options, monitors ...Monitor) (*Env, error) {
	w, err := driver.NewWorld(o)
	if err != nil {
		return nil, err
	}
	e := &Env{W: w, R: r, Monitors: monitors, Counts: map[string]int{}, Ctx: context.Background()}
	hook := func(req *simkube.Request) {
		for _, m := range e.Monitors {
			m.OnRequest(e, req)
		}
	}
	w.Store.Subscribe(hook)
	w.Store.Fault = e.onRequestStart
	if w.Target != w.Store {
		w.Target.Subscribe(hook)
		w.Target.Fault = e.onRequestStart
	}
	return e, nil
}

func (e *Env) Report(sig, msg string) {
	e.mu.Lock()
	e.Viol = append(e.Viol, Violation{sig, msg})
	e.mu.Unlock()
}

func (e *Env) Count(k string) {
	e.mu.Lock()
	e.Counts[k]++
	e.mu.Unlock()
}

func (e *Env) Logf(format string, a ...any) {
	e.stepNo++
	e.Log = append(e.Log, fmt.Sprintf("%03d ", e.stepNo)+fmt.Sprintf(format, a...))
}

// Reconcile runs one pass and feeds the monitors.
func (e *Env) Reconcile(ctrl string, key types.NamespacedName) driver.PassResult {
	pr := e.W.Reconcile(e.Ctx, ctrl, key)
	res := "ok"
	switch {
	case pr.Crashed:
		res = "CRASH"
	case pr.Panic != nil:
		res = fmt.Sprintf("PANIC %v", pr.Panic)
	case pr.Err != nil:
		res = "err: " + firstN(pr.Err.Error(), 90)
	}
	n := 0
	if pr.Pass != nil {
		n = len(pr.Pass.Requests)
	}
	e.Logf("reconcile %s %s -> %s (%d requests, requeueAfter=%v)", ctrl, key, res, n, pr.Result.RequeueAfter)
	for _, m := range e.Monitors {
		m.OnPassEnd(e, pr)
	}
	return pr
}

func firstN(s string, n int) string {
	if len(s) > n {
		return s[:n]
	}
	return s
}

// Round reconciles every (controller,key) once in PRNG order and runs the GC. Returns whether anything changed.
func (e *Env) Round() bool {
	changed, _ := e.RoundErr()
	return changed
}

// RoundErr additionally reports how many passes ended with an error, a crash or a panic (work the
// controller-runtime queue would retry).
func (e *Env) RoundErr() (changed bool, failed int) {
	before, beforeT := e.W.Store.Seq(), e.W.Target.Seq()
	work := e.W.AllWork()
	if e.R != nil {
		e.R.Shuffle(len(work), func(i, j int) { work[i], work[j] = work[j], work[i] })
	}
	for _, wk := range work {
		pr := e.Reconcile(wk.Ctrl, wk.Key)
		if pr.Err != nil || pr.Crashed || pr.Panic != nil {
			failed++
		}
	}
	e.GC()
	return e.W.Store.Seq() != before || e.W.Target.Seq() != beforeT, failed
}

// Disarm drops pending one-shot faults and interposed actions (disturbances stop).
func (e *Env) Disarm() {
	if len(e.armed) > 0 {
		e.Logf("dropping %d pending armed faults before settling", len(e.armed))
		e.armed = nil
	}
}

// Quiesce: fair rounds until a whole round commits nothing and no pass failed. Returns rounds used and whether it converged.
func (e *Env) Quiesce(max int) (int, bool) {
	// disturbances stop here: pending one-shot faults and interposed actions are dropped
	if len(e.armed) > 0 {
		e.Logf("dropping %d pending armed faults before settling", len(e.armed))
		e.armed = nil
	}
	e.W.Fresh = true // the caches catch up once disturbances stop
	for i := 1; i <= max; i++ {
		changed, failed := e.RoundErr()
		if !changed && failed == 0 {
			return i, true
		}
	}
	return max, false
}

func (e *Env) GC() {
	n := e.W.Store.GCStep(e.Ctx)
	if e.W.Target != e.W.Store {
		n += e.W.Target.GCStep(e.Ctx)
	}
	if n > 0 {
		e.Logf("gc: %d changes", n)
	}
}

// TraceTail renders the last n requests of both stores for violation reports.
func (e *Env) TraceTail(n int) []string {
	tr := e.W.Store.Trace()
	if e.W.Target != e.W.Store {
		tr = append(tr, e.W.Target.Trace()...)
	}
	if len(tr) > n {
		tr = tr[len(tr)-n:]
	}
	out := make([]string, len(tr))
	for i, r := range tr {
		out[i] = r.String()
	}
	return out
}

// ---- builders ---------------------------------------------------------------------------------

var (
	GVKConfigMap     = schema.GroupVersionKind{Version: "v1", Kind: "ConfigMap"}
	GVKSecret        = schema.GroupVersionKind{Version: "v1", Kind: "Secret"}
	GVKDeployment    = schema.GroupVersionKind{Group: "apps", Version: "v1", Kind: "Deployment"}
	GVKWidget        = schema.GroupVersionKind{Group: "verif.example.com", Version: "v1", Kind: "Widget"}
	GVKClusterWidget = schema.GroupVersionKind{Group: "verif.example.com", Version: "v1", Kind: "ClusterWidget"}
	GVKClusterRole   = schema.GroupVersionKind{Group: "rbac.authorization.k8s.io", Version: "v1", Kind: "ClusterRole"}
	GVKNamespace     = schema.GroupVersionKind{Version: "v1", Kind: "Namespace"}
	GVKUnknown       = schema.GroupVersionKind{Group: "nope.example.com", Version: "v1", Kind: "Gadget"}
)

// Object builds a managed object of one of the scenario kinds.
func Object(gvk schema.GroupVersionKind, ns, name string, content string) *unstructured.Unstructured {
	m := map[string]any{
		"apiVersion": gvk.GroupVersion().String(), "kind": gvk.Kind,
		"metadata": map[string]any{"name": name},
	}
	if ns != "" {
		m["metadata"].(map[string]any)["namespace"] = ns
	}
	switch gvk.Kind {
	case "ConfigMap":
		m["data"] = map[string]any{"content": content}
	case "Secret":
		m["stringData"] = map[string]any{"content": content}
	case "ClusterRole":
		m["rules"] = []any{map[string]any{"apiGroups": []any{""}, "resources": []any{content}, "verbs": []any{"get"}}}
	default:
		m["spec"] = map[string]any{"content": content, "replicas": int64(1)}
	}
	return driver.U(m)
}

func ObjectSetObject(u *unstructured.Unstructured, cp string) corev1alpha1.ObjectSetObject {
	return corev1alpha1.ObjectSetObject{Object: *u, CollisionProtection: corev1alpha1.CollisionProtection(cp)}
}

// AvailableProbe: objects of the kind must report condition Available=True.
func AvailableProbe(gvk schema.GroupVersionKind) corev1alpha1.ObjectSetProbe {
	return corev1alpha1.ObjectSetProbe{
		Selector: corev1alpha1.ProbeSelector{Kind: &corev1alpha1.PackageProbeKindSpec{Group: gvk.Group, Kind: gvk.Kind}},
		Probes:   []corev1alpha1.Probe{{Condition: &corev1alpha1.ProbeConditionSpec{Type: "Available", Status: "True"}}},
	}
}

func NewObjectSet(ns, name string, phases []corev1alpha1.ObjectSetTemplatePhase, probes []corev1alpha1.ObjectSetProbe, previous ...string) client.Object {
	spec := corev1alpha1.ObjectSetTemplateSpec{Phases: phases, AvailabilityProbes: probes}
	var prev []corev1alpha1.PreviousRevisionReference
	for _, p := range previous {
		prev = append(prev, corev1alpha1.PreviousRevisionReference{Name: p})
	}
	if ns == "" {
		return &corev1alpha1.ClusterObjectSet{
			ObjectMeta: metav1.ObjectMeta{Name: name},
			Spec:       corev1alpha1.ClusterObjectSetSpec{ObjectSetTemplateSpec: spec, Previous: prev},
		}
	}
	return &corev1alpha1.ObjectSet{
		ObjectMeta: metav1.ObjectMeta{Name: name, Namespace: ns},
		Spec:       corev1alpha1.ObjectSetSpec{ObjectSetTemplateSpec: spec, Previous: prev},
	}
}

// ---- generic access ---------------------------------------------------------------------------

func (e *Env) actor(name string, target bool) (context.Context, *simkube.Client) {
	if target {
		return e.W.TargetActor(name)
	}
	return e.W.Actor(name)
}

// GetU reads an object as an actor (nil if absent).
func (e *Env) GetU(actor string, target bool, gvk schema.GroupVersionKind, ns, name string) *unstructured.Unstructured {
	ctx, c := e.actor(actor, target)
	u := &unstructured.Unstructured{}
	u.SetGroupVersionKind(gvk)
	if err := c.Get(ctx, client.ObjectKey{Namespace: ns, Name: name}, u); err != nil {
		return nil
	}
	return u
}

func PKO(kind string) schema.GroupVersionKind {
	return corev1alpha1.GroupVersion.WithKind(kind)
}

// SetStatusRevision forces status.revision of an ObjectSet (used to build revision chains by hand).
func (e *Env) SetStatusRevision(kind, ns, name string, rev int64, remotePhases ...corev1alpha1.RemotePhaseReference) {
	ctx, c := e.actor("setup", false)
	u := e.GetU("setup", false, PKO(kind), ns, name)
	if u == nil {
		panic("SetStatusRevision: no such object " + name)
	}
	st := map[string]any{"revision": rev}
	if len(remotePhases) > 0 {
		var l []any
		for _, r := range remotePhases {
			l = append(l, map[string]any{"name": r.Name, "uid": string(r.UID)})
		}
		st["remotePhases"] = l
	}
	u.Object["status"] = st
	if err := c.Status().Update(ctx, u); err != nil {
		panic(err)
	}
}

// ---- actors -----------------------------------------------------------------------------------

// WorkloadStatus plays the controller of a managed object: mode ready | notready | stale | none.
func (e *Env) WorkloadStatus(target bool, gvk schema.GroupVersionKind, ns, name, mode string) bool {
	ctx, c := e.actor("workload", target)
	u := e.GetU("workload", target, gvk, ns, name)
	if u == nil {
		e.Logf("workload %s %s/%s %s: absent", gvk.Kind, ns, name, mode)
		return false
	}
	gen := u.GetGeneration()
	var st map[string]any
	switch mode {
	case "ready":
		st = map[string]any{"observedGeneration": gen, "conditions": []any{map[string]any{"type": "Available", "status": "True", "reason": "Up", "message": "", "observedGeneration": gen}}}
	case "notready":
		st = map[string]any{"observedGeneration": gen, "conditions": []any{map[string]any{"type": "Available", "status": "False", "reason": "Down", "message": "not ready"}}}
	case "stale":
		st = map[string]any{"observedGeneration": gen - 1, "conditions": []any{map[string]any{"type": "Available", "status": "True", "reason": "Up", "message": ""}}}
	case "none":
		st = nil
	}
	if st == nil {
		delete(u.Object, "status")
	} else {
		u.Object["status"] = st
	}
	err := c.Status().Update(ctx, u)
	e.Logf("workload %s %s/%s -> %s (err=%v)", gvk.Kind, ns, name, mode, err)
	return err == nil
}

func foreignRef(kind, name, uid string, controller bool) map[string]any {
	r := map[string]any{"apiVersion": "apps/v1", "kind": kind, "name": name, "uid": uid}
	if controller {
		r["controller"] = true
	}
	return r
}

// Mutate applies fn to the current state of an object and updates it as the given actor.
func (e *Env) Mutate(actor string, target bool, gvk schema.GroupVersionKind, ns, name string, what string, fn func(u *unstructured.Unstructured)) bool {
	ctx, c := e.actor(actor, target)
	u := e.GetU(actor, target, gvk, ns, name)
	if u == nil {
		e.Logf("%s %s %s %s/%s: absent", actor, what, gvk.Kind, ns, name)
		return false
	}
	fn(u)
	err := c.Update(ctx, u)
	e.Logf("%s %s %s %s/%s (err=%v)", actor, what, gvk.Kind, ns, name, err)
	return err == nil
}

func (e *Env) Delete(actor string, target bool, gvk schema.GroupVersionKind, ns, name string, opts ...client.DeleteOption) bool {
	ctx, c := e.actor(actor, target)
	u := &unstructured.Unstructured{}
	u.SetGroupVersionKind(gvk)
	u.SetNamespace(ns)
	u.SetName(name)
	err := c.Delete(ctx, u, opts...)
	e.Logf("%s delete %s %s/%s (err=%v)", actor, gvk.Kind, ns, name, err)
	return err == nil
}

func (e *Env) Create(actor string, target bool, obj client.Object) error {
	ctx, c := e.actor(actor, target)
	err := c.Create(ctx, obj)
	e.Logf("%s create %T %s/%s (err=%v)", actor, obj, obj.GetNamespace(), obj.GetName(), err)
	return err
}

// OwnerOfPass derives the owner object a pass works for: the first successful read of the reconciled kind.
func OwnerOfPass(p *simkube.Pass) *pkomodel.Owner {
	if p == nil {
		return nil
	}
	if o, ok := p.Attrs["owner"].(*pkomodel.Owner); ok {
		return o
	}
	kind := driver.CtrlKind[p.Actor]
	for _, r := range p.Requests {
		if r.Verb == "get" && r.GVK.Kind == kind && r.Key.Name == p.Key.Name && r.Key.Namespace == p.Key.Namespace && r.Err == nil && r.Post != nil {
			o := pkomodel.OwnerFrom(r.Post)
			p.Attrs["owner"] = o
			return o
		}
	}
	return nil
}

// StrategyOf returns the owner strategy a controller flavour uses.
func StrategyOf(ctrl string) pkomodel.Strategy {
	if ctrl == driver.CtrlRemotePhase {
		return pkomodel.Annotation
	}
	return pkomodel.Native
}

func SortedKeys[V any](m map[string]V) []string {
	ks := make([]string, 0, len(m))
	for k := range m {
		ks = append(ks, k)
	}
	sort.Strings(ks)
	return ks
}

var _ = strings.Join

// ToUnstructured converts a typed API value to its JSON map form.
func ToUnstructured(v any) (map[string]any, error) {
	b, err := json.Marshal(v)
	if err != nil {
		return nil, err
	}
	out := map[string]any{}
	return out, json.Unmarshal(b, &out)
}
