package scen

import (
	"fmt"
	"math/rand"
	"sort"
	"strings"

	apierrors "k8s.io/apimachinery/pkg/api/errors"
	metav1 "k8s.io/apimachinery/pkg/apis/meta/v1"
	"k8s.io/apimachinery/pkg/apis/meta/v1/unstructured"
	"k8s.io/apimachinery/pkg/runtime/schema"
	"k8s.io/apimachinery/pkg/types"
	"sigs.k8s.io/controller-runtime/pkg/client"

	corev1alpha1 "package-operator.run/apis/core/v1alpha1"
	"package-operator.run/internal/verifharness/driver"
	"package-operator.run/internal/verifharness/pkomodel"
	"package-operator.run/internal/verifharness/simkube"
)

// Profile steers the random scenario family shared by C01..C10, C14, C15.
type Profile struct {
	Steps        int
	Cluster      bool    // ClusterObjectSets instead of ObjectSets
	Hosted       bool    // world has a hosted cluster; some phases use the hosted class
	Delegated    float64 // probability that a phase is delegated to the same-cluster phase controller
	MaxRevisions int
	Weights      map[string]int
	Sliced       bool // objects are referenced through ObjectSlices
	SliceSeed    int64
	// CPs to draw collision protection values from ("" = unset)
	CPs []string
	// FinalQuiesce: run fair rounds at the end
	FinalQuiesce int
	// LagMax: the manager's cached client may be up to LagMax commits stale
	LagMax int
	// ForgeControl lets the adversary create objects whose controller reference names a PKO revision
	ForgeControl bool
}

var DefaultWeights = map[string]int{
	"reconcile": 30, "round": 3, "workload": 10, "gc": 3,
	"adv-create": 3, "adv-reown": 3, "adv-relabel": 3, "adv-edit": 3, "adv-delete": 2, "adv-recreate": 2, "adv-finalizer": 2,
	"user-next-revision": 3, "user-pause": 2, "user-unpause": 2, "user-archive": 2, "user-delete": 1, "restart": 1,
	"fault": 0, "adv-interpose": 0, "user-touch-spec": 0, "adv-delete-phase": 0,
}

type ident struct {
	GVK    schema.GroupVersionKind
	Name   string
	Hosted bool
}

type Rand struct {
	E        *Env
	P        Profile
	R        *rand.Rand
	NS       string // namespace of managed objects
	SetNS    string // namespace of the sets ("" for cluster scoped)
	SetKind  string
	Pool     []ident
	Sets     []string // names of created sets in creation order
	revCount int
	sliceR   *rand.Rand
}

func (g *Rand) pick(n int) int { return g.R.Intn(n) }

func pickS[T any](r *rand.Rand, xs []T) T { return xs[r.Intn(len(xs))] }

func (g *Rand) setCtrl() string {
	if g.P.Cluster {
		return driver.CtrlClusterObjectSet
	}
	return driver.CtrlObjectSet
}

// NewRandom prepares the world of a random scenario.
func NewRandom(e *Env, p Profile) *Rand {
	g := &Rand{E: e, P: p, R: e.R, NS: "ns", SetNS: "ns", SetKind: "ObjectSet"}
	if p.Cluster {
		g.SetNS, g.SetKind = "", "ClusterObjectSet"
	}
	if p.Weights == nil {
		g.P.Weights = DefaultWeights
	}
	if len(p.CPs) == 0 {
		g.P.CPs = []string{"", "", "Prevent", "IfNoController", "None"}
	}
	ctx, c := e.W.Actor("setup")
	driver.MustCreate(ctx, c, driver.Namespace(g.NS))
	if e.W.Target != e.W.Store {
		tctx, tc := e.W.TargetActor("setup")
		driver.MustCreate(tctx, tc, driver.Namespace(g.NS))
	}
	g.Pool = []ident{
		{scenGVK("ConfigMap"), "cm-1", false}, {scenGVK("ConfigMap"), "cm-2", false}, {scenGVK("ConfigMap"), "cm-3", false},
		{scenGVK("Deployment"), "dep-1", false}, {scenGVK("Deployment"), "dep-2", false}, {scenGVK("Widget"), "wid-1", false},
	}
	if p.Hosted {
		g.Pool = append(g.Pool, ident{scenGVK("ConfigMap"), "h-cm-1", true}, ident{scenGVK("Deployment"), "h-dep-1", true}, ident{scenGVK("ConfigMap"), "h-cm-2", true})
	}
	return g
}

func scenGVK(kind string) schema.GroupVersionKind {
	switch kind {
	case "ConfigMap":
		return GVKConfigMap
	case "Deployment":
		return GVKDeployment
	case "Widget":
		return GVKWidget
	}
	panic(kind)
}

// newRevision creates the next set of the chain: objects are a random subset of the pool spread
// over 1..3 phases; previous names every earlier set (sometimes a strict subset).
func (g *Rand) newRevision() {
	r := g.R
	g.revCount++
	name := fmt.Sprintf("app-%d", g.revCount)
	var local, hosted []ident
	for _, id := range g.Pool {
		if r.Intn(3) == 0 {
			continue
		}
		if id.Hosted {
			hosted = append(hosted, id)
		} else {
			local = append(local, id)
		}
	}
	if len(local) == 0 {
		local = append(local, g.Pool[0])
	}
	nPh := 1 + r.Intn(3)
	phases := make([]corev1alpha1.ObjectSetTemplatePhase, nPh)
	for i := range phases {
		phases[i].Name = fmt.Sprintf("phase-%d", i+1)
		if r.Float64() < g.P.Delegated {
			phases[i].Class = "default"
		}
	}
	for _, id := range local {
		i := r.Intn(nPh)
		ns := g.NS
		if !g.P.Cluster && r.Intn(2) == 0 {
			ns = "" // defaulted to the set's namespace
		}
		phases[i].Objects = append(phases[i].Objects, ObjectSetObject(g.manifest(id, ns, name), pickS(r, g.P.CPs)))
	}
	if len(hosted) > 0 {
		ph := corev1alpha1.ObjectSetTemplatePhase{Name: "hosted-phase", Class: driver.RemoteClass}
		for _, id := range hosted {
			ph.Objects = append(ph.Objects, ObjectSetObject(g.manifest(id, g.NS, name), pickS(r, g.P.CPs)))
		}
		pos := r.Intn(len(phases) + 1)
		phases = append(phases[:pos], append([]corev1alpha1.ObjectSetTemplatePhase{ph}, phases[pos:]...)...)
	}
	// drop empty phases
	var ps []corev1alpha1.ObjectSetTemplatePhase
	for _, p := range phases {
		if len(p.Objects) > 0 {
			ps = append(ps, p)
		}
	}
	var previous []string
	for _, s := range g.Sets {
		if g.E.W.Store.Peek(PKO(g.SetKind).GroupKind(), g.SetNS, s) == nil {
			continue
		}
		if r.Intn(6) == 0 {
			continue // an undeclared earlier revision
		}
		previous = append(previous, s)
	}
	probes := []corev1alpha1.ObjectSetProbe{AvailableProbe(GVKDeployment), AvailableProbe(GVKWidget)}
	if g.P.Sliced {
		g.slice(name, ps)
	} else if g.sliceR != nil {
		// keep the slicing PRNG in step with a sliced twin run
		g.slice(name, nil)
	}
	if err := g.E.Create("user", false, NewObjectSet(g.SetNS, name, ps, probes, previous...)); err != nil {
		panic(err)
	}
	g.Sets = append(g.Sets, name)
}

// manifest builds the object as listed in a revision. Some manifests look like exports of live
// objects: they carry a revision annotation or a status stanza of their own.
func (g *Rand) manifest(id ident, ns, content string) *unstructured.Unstructured {
	u := Object(id.GVK, ns, id.Name, content)
	if g.R.Intn(8) == 0 {
		u.SetAnnotations(map[string]string{pkomodel.RevisionAnnotation: fmt.Sprint(1 + g.R.Intn(2)), "example.com/exported": "true"})
	}
	if id.GVK.Kind != "ConfigMap" && g.R.Intn(6) == 0 {
		u.Object["status"] = map[string]any{"conditions": []any{map[string]any{"type": "Available", "status": "True", "reason": "Exported", "message": ""}}}
	}
	return u
}

// slice moves the objects of every local phase into an ObjectSlice.
func (g *Rand) slice(setName string, phases []corev1alpha1.ObjectSetTemplatePhase) {
	if g.sliceR == nil {
		g.sliceR = rand.New(rand.NewSource(g.P.SliceSeed + 1))
	}
	for i := range phases {
		if phases[i].Class != "" {
			continue // delegated phases carry their objects in the ObjectSetPhase
		}
		if len(phases[i].Objects) == 0 || g.sliceR.Intn(3) == 0 {
			continue
		}
		keep := 0
		if g.sliceR.Intn(2) == 0 {
			keep = 1 // one object stays inline, the rest goes to the slice
		}
		if len(phases[i].Objects) <= keep {
			continue
		}
		objs := phases[i].Objects[keep:]
		// one to three slices per phase, each holding a contiguous run of the objects
		nSl := 1 + g.sliceR.Intn(3)
		if nSl > len(objs) {
			nSl = len(objs)
		}
		var names []string
		for k := 0; k < nSl; k++ {
			lo, hi := k*len(objs)/nSl, (k+1)*len(objs)/nSl
			sliceName := fmt.Sprintf("%s-%s-slice", setName, phases[i].Name)
			if k > 0 {
				sliceName = fmt.Sprintf("%s-%d", sliceName, k)
			}
			var obj client.Object
			if g.P.Cluster {
				obj = &corev1alpha1.ClusterObjectSlice{ObjectMeta: metav1.ObjectMeta{Name: sliceName}, Objects: objs[lo:hi]}
			} else {
				obj = &corev1alpha1.ObjectSlice{ObjectMeta: metav1.ObjectMeta{Name: sliceName, Namespace: g.SetNS}, Objects: objs[lo:hi]}
			}
			if err := g.E.Create("user", false, obj); err != nil {
				panic(err)
			}
			names = append(names, sliceName)
		}
		phases[i].Objects = phases[i].Objects[:keep]
		phases[i].Slices = names
	}
}

func (g *Rand) existingSets() []string {
	var out []string
	for _, s := range g.Sets {
		if g.E.W.Store.Peek(PKO(g.SetKind).GroupKind(), g.SetNS, s) != nil {
			out = append(out, s)
		}
	}
	return out
}

func (g *Rand) store(id ident) bool { return id.Hosted }

func (g *Rand) exists(id ident) bool {
	s := g.E.W.Store
	if id.Hosted {
		s = g.E.W.Target
	}
	return s.Peek(id.GVK.GroupKind(), g.NS, id.Name) != nil
}

func (g *Rand) setRef(name string, controller bool) *metav1.OwnerReference {
	o := g.E.W.Store.Peek(PKO(g.SetKind).GroupKind(), g.SetNS, name)
	if o == nil {
		return nil
	}
	ref := &metav1.OwnerReference{APIVersion: corev1alpha1.GroupVersion.String(), Kind: g.SetKind, Name: name, UID: types.UID(pkomodel.Str(o, "metadata", "uid"))}
	if controller {
		t := true
		ref.Controller = &t
	}
	return ref
}

// shape applies a random ownership / labelling shape to an object an adversary creates or re-owns.
func (g *Rand) shape(u *unstructured.Unstructured, hosted bool) string {
	r := g.R
	desc := ""
	var refs []metav1.OwnerReference
	switch r.Intn(6) {
	case 0:
		desc = "no owner"
	case 1:
		refs = append(refs, metav1.OwnerReference{APIVersion: "apps/v1", Kind: "Deployment", Name: "plain", UID: "foreign-plain"})
		desc = "plain foreign owner"
	case 2:
		t := true
		refs = append(refs, metav1.OwnerReference{APIVersion: "apps/v1", Kind: "Deployment", Name: "boss", UID: "foreign-ctrl", Controller: &t})
		desc = "foreign controller"
	default:
		sets := g.existingSets()
		if len(sets) > 0 {
			s := pickS(r, sets)
			// a third party cannot know a set's UID before the set acted; references that make a PKO
			// revision *controller* without PKO's doing are only forged where the profile asks for it (C01)
			if ref := g.setRef(s, g.P.ForgeControl && r.Intn(4) != 0); ref != nil {
				refs = append(refs, *ref)
				desc = fmt.Sprintf("owner %s controller=%v", s, ref.Controller != nil)
			}
		}
	}
	if hosted {
		// hosted objects keep ownership in the annotation; native references to management-cluster objects make no sense there
		refs = nil
		desc += " (hosted: no native refs)"
	}
	u.SetOwnerReferences(refs)
	ann := u.GetAnnotations()
	if ann == nil {
		ann = map[string]string{}
	}
	switch r.Intn(5) {
	case 0:
		ann[pkomodel.RevisionAnnotation] = fmt.Sprint(1 + r.Intn(4))
		desc += " rev=" + ann[pkomodel.RevisionAnnotation]
	case 1:
		ann[pkomodel.RevisionAnnotation] = "not-a-number"
		desc += " rev=garbage"
	default:
		delete(ann, pkomodel.RevisionAnnotation)
	}
	if len(ann) == 0 {
		ann = nil
	}
	u.SetAnnotations(ann)
	lbl := u.GetLabels()
	if lbl == nil {
		lbl = map[string]string{}
	}
	switch r.Intn(5) {
	case 0:
		lbl[pkomodel.PackageLabel] = "package-operator"
		desc += " pkg=package-operator"
	case 1:
		lbl[pkomodel.PackageLabel] = "other"
	}
	if r.Intn(2) == 0 {
		lbl[pkomodel.CacheLabel] = "True"
	} else {
		delete(lbl, pkomodel.CacheLabel)
	}
	if len(lbl) == 0 {
		lbl = nil
	}
	u.SetLabels(lbl)
	return desc
}

func (g *Rand) weightedOp() string {
	total := 0
	keys := SortedKeys(g.P.Weights)
	for _, k := range keys {
		total += g.P.Weights[k]
	}
	x := g.R.Intn(total)
	for _, k := range keys {
		x -= g.P.Weights[k]
		if x < 0 {
			return k
		}
	}
	return "reconcile"
}

// Step executes one random step.
func (g *Rand) Step() {
	e, r := g.E, g.R
	op := g.weightedOp()
	switch op {
	case "reconcile":
		work := e.W.AllWork()
		if len(work) == 0 {
			return
		}
		wk := work[r.Intn(len(work))]
		e.Reconcile(wk.Ctrl, wk.Key)
	case "round":
		e.Round()
	case "gc":
		e.GC()
	case "restart":
		e.W.Restart()
		e.Logf("operator restart (all in-memory state dropped)")
	case "workload":
		var cands []ident
		for _, id := range g.Pool {
			if id.GVK.Kind != "ConfigMap" {
				cands = append(cands, id)
			}
		}
		id := pickS(r, cands)
		e.WorkloadStatus(id.Hosted, id.GVK, g.NS, id.Name, pickS(r, []string{"ready", "ready", "ready", "notready", "stale", "none"}))
	case "adv-create":
		id := pickS(r, g.Pool)
		if g.exists(id) {
			return
		}
		u := Object(id.GVK, g.NS, id.Name, "third-party")
		desc := g.shape(u, id.Hosted)
		err := e.Create("adversary", id.Hosted, u)
		e.Logf("  shape: %s (err=%v)", desc, err)
	case "adv-reown":
		id := pickS(r, g.Pool)
		var desc string
		e.Mutate("adversary", id.Hosted, id.GVK, g.NS, id.Name, "re-own", func(u *unstructured.Unstructured) { desc = g.shape(u, id.Hosted) })
		e.Logf("  shape: %s", desc)
	case "adv-relabel":
		id := pickS(r, g.Pool)
		e.Mutate("adversary", id.Hosted, id.GVK, g.NS, id.Name, "relabel", func(u *unstructured.Unstructured) {
			lbl := u.GetLabels()
			if lbl == nil {
				lbl = map[string]string{}
			}
			switch r.Intn(3) {
			case 0:
				delete(lbl, pkomodel.CacheLabel)
			case 1:
				lbl[pkomodel.PackageLabel] = "package-operator"
			default:
				delete(lbl, pkomodel.PackageLabel)
			}
			u.SetLabels(lbl)
		})
	case "adv-edit":
		id := pickS(r, g.Pool)
		e.Mutate("adversary", id.Hosted, id.GVK, g.NS, id.Name, "edit", func(u *unstructured.Unstructured) {
			if id.GVK.Kind == "ConfigMap" {
				_ = unstructured.SetNestedField(u.Object, fmt.Sprintf("drift-%d", r.Intn(100)), "data", "content")
				_ = unstructured.SetNestedField(u.Object, "x", "data", "third-party-key")
			} else {
				_ = unstructured.SetNestedField(u.Object, fmt.Sprintf("drift-%d", r.Intn(100)), "spec", "content")
			}
		})
	case "adv-delete":
		id := pickS(r, g.Pool)
		e.Delete("adversary", id.Hosted, id.GVK, g.NS, id.Name)
	case "adv-recreate":
		id := pickS(r, g.Pool)
		if e.Delete("adversary", id.Hosted, id.GVK, g.NS, id.Name) && !g.exists(id) {
			u := Object(id.GVK, g.NS, id.Name, "re-created")
			desc := g.shape(u, id.Hosted)
			err := e.Create("adversary", id.Hosted, u)
			e.Logf("  re-created with shape: %s (err=%v)", desc, err)
		}
	case "adv-finalizer":
		id := pickS(r, g.Pool)
		e.Mutate("adversary", id.Hosted, id.GVK, g.NS, id.Name, "toggle foreign finalizer", func(u *unstructured.Unstructured) {
			f := u.GetFinalizers()
			has := false
			var nf []string
			for _, x := range f {
				if x == "example.com/hold" {
					has = true
				} else {
					nf = append(nf, x)
				}
			}
			if !has {
				nf = append(nf, "example.com/hold")
			}
			u.SetFinalizers(nf)
		})
	case "fault":
		kind := r.Intn(4)
		verbs := pickS(r, [][]string{{"delete"}, {"patch"}, {"update"}, {"patch", "update", "delete", "create"}})
		skip := r.Intn(4)
		a := &Armed{Match: func(req *simkube.Request) bool {
			if !req.IsWrite() || req.DryRun {
				return false
			}
			for _, v := range verbs {
				if v == req.Verb {
					if skip > 0 {
						skip--
						return false
					}
					return true
				}
			}
			return false
		}}
		switch kind {
		case 0:
			a.Fault, a.Err, a.Desc = simkube.FaultErrorBefore, apierrors.NewConflict(schema.GroupResource{Resource: "objects"}, "injected", fmt.Errorf("injected conflict")), "injected 409 Conflict"
		case 1:
			a.Fault, a.Err, a.Desc = simkube.FaultErrorBefore, apierrors.NewInternalError(fmt.Errorf("injected")), "injected 500"
		case 2:
			a.Fault, a.Desc = simkube.FaultLostResponse, "effect committed, response lost"
		default:
			a.Fault, a.Desc = simkube.FaultCrash, "operator crash"
		}
		a.Desc += fmt.Sprintf(" at upcoming %v write (skip %d)", verbs, skip)
		e.Arm(a)
	case "adv-interpose":
		// a third party acts between PKO's read and its next write on the same managed object
		action := pickS(r, []string{"re-own", "edit", "recreate", "delete", "add-owner"})
		verb := pickS(r, []string{"delete", "delete", "patch"})
		e.Arm(&Armed{
			Desc: fmt.Sprintf("third party will %s the object right before PKO's next %s on a managed object", action, verb),
			Match: func(req *simkube.Request) bool {
				return req.Verb == verb && !req.DryRun && !strings.HasPrefix(req.GVK.Group, "package-operator.run") && req.GVK.Kind != "Namespace"
			},
			Before: func(req *simkube.Request) {
				hosted := req.InStore() == e.W.Target && e.W.Target != e.W.Store
				id := ident{GVK: req.GVK, Name: req.Key.Name, Hosted: hosted}
				switch action {
				case "re-own":
					e.Mutate("adversary", hosted, id.GVK, req.Key.Namespace, id.Name, "re-own (interposed)", func(u *unstructured.Unstructured) {
						t := true
						if hosted {
							ann := u.GetAnnotations()
							if ann == nil {
								ann = map[string]string{}
							}
							ann[pkomodel.OwnersAnnotation] = `[{"apiVersion":"apps/v1","kind":"Deployment","name":"boss","namespace":"ns","uid":"foreign-ctrl","controller":true}]`
							u.SetAnnotations(ann)
						} else {
							u.SetOwnerReferences([]metav1.OwnerReference{{APIVersion: "apps/v1", Kind: "Deployment", Name: "boss", UID: "foreign-ctrl", Controller: &t}})
						}
					})
				case "add-owner":
					e.Mutate("adversary", hosted, id.GVK, req.Key.Namespace, id.Name, "add plain owner (interposed)", func(u *unstructured.Unstructured) {
						u.SetOwnerReferences(append(u.GetOwnerReferences(), metav1.OwnerReference{APIVersion: "v1", Kind: "ConfigMap", Name: "late", UID: "foreign-late"}))
					})
				case "edit":
					e.Mutate("adversary", hosted, id.GVK, req.Key.Namespace, id.Name, "edit (interposed)", func(u *unstructured.Unstructured) {
						l := u.GetLabels()
						if l == nil {
							l = map[string]string{}
						}
						l["example.com/touched"] = fmt.Sprint(r.Intn(1000))
						u.SetLabels(l)
					})
				case "delete":
					e.Delete("adversary", hosted, id.GVK, req.Key.Namespace, id.Name)
				case "recreate":
					if e.Delete("adversary", hosted, id.GVK, req.Key.Namespace, id.Name) && !g.exists(id) {
						u := Object(id.GVK, req.Key.Namespace, id.Name, "re-created")
						u.SetLabels(map[string]string{pkomodel.CacheLabel: "True"})
						_ = e.Create("adversary", hosted, u)
					}
				}
			},
		})
	case "adv-delete-phase":
		// a third party deletes the object of a delegated phase out of band. Half of the time the story is played on:
		// the phase controller finalizes it, the ObjectSet re-creates it (new UID) and the user then archives or deletes
		// the ObjectSet before it has reconciled successfully again.
		type pk struct {
			kind string
			key  types.NamespacedName
		}
		var ks []pk
		for _, kind := range []string{"ObjectSetPhase", "ClusterObjectSetPhase"} {
			for _, k := range driver.Keys(e.W.Store, kind) {
				ks = append(ks, pk{kind, k})
			}
		}
		if len(ks) == 0 {
			return
		}
		k := ks[r.Intn(len(ks))]
		playOn, archive := r.Intn(2) == 0, r.Intn(2) == 0
		if !e.Delete("adversary", false, PKO(k.kind), k.key.Namespace, k.key.Name) {
			return
		}
		e.Count("adv_phase_objects_deleted")
		if !playOn {
			return
		}
		reconcileKind := func(kind string, name string) {
			for _, wk := range e.W.AllWork() {
				if driver.CtrlKind[wk.Ctrl] == kind && wk.Key.Name == name && wk.Key.Namespace == k.key.Namespace {
					e.Reconcile(wk.Ctrl, wk.Key)
				}
			}
		}
		for i := 0; i < 3 && e.W.Store.Peek(PKO(k.kind).GroupKind(), k.key.Namespace, k.key.Name) != nil; i++ {
			reconcileKind(k.kind, k.key.Name)
		}
		var set string
		for _, s := range g.existingSets() {
			if strings.HasPrefix(k.key.Name, s+"-") && len(s) > len(set) {
				set = s
			}
		}
		if set == "" {
			return
		}
		reconcileKind(g.SetKind, set)
		if archive {
			e.Mutate("user", false, PKO(g.SetKind), g.SetNS, set, "lifecycleState=Archived", func(u *unstructured.Unstructured) {
				_ = unstructured.SetNestedField(u.Object, "Archived", "spec", "lifecycleState")
			})
		} else {
			e.Delete("user", false, PKO(g.SetKind), g.SetNS, set)
		}
		e.Count("adv_phase_recreated_then_teardown")
	case "user-touch-spec":
		// a spec change that bumps the generation without changing the rollout (immutable fields stay)
		sets := g.existingSets()
		if len(sets) == 0 {
			return
		}
		s := pickS(r, sets)
		e.Mutate("user", false, PKO(g.SetKind), g.SetNS, s, "bump successDelaySeconds? no: toggle lifecycle Active (no-op) / relabel", func(u *unstructured.Unstructured) {
			l := u.GetLabels()
			if l == nil {
				l = map[string]string{}
			}
			l["example.com/touched"] = fmt.Sprint(r.Intn(100))
			u.SetLabels(l)
		})
	case "user-next-revision":
		if g.revCount < g.P.MaxRevisions {
			g.newRevision()
		}
	case "user-pause", "user-unpause", "user-archive":
		sets := g.existingSets()
		if len(sets) == 0 {
			return
		}
		s := pickS(r, sets)
		state := map[string]string{"user-pause": "Paused", "user-unpause": "Active", "user-archive": "Archived"}[op]
		e.Mutate("user", false, PKO(g.SetKind), g.SetNS, s, "lifecycleState="+state, func(u *unstructured.Unstructured) {
			_ = unstructured.SetNestedField(u.Object, state, "spec", "lifecycleState")
		})
	case "user-delete":
		sets := g.existingSets()
		if len(sets) == 0 {
			return
		}
		s := pickS(r, sets)
		if r.Intn(3) == 0 {
			e.Delete("user", false, PKO(g.SetKind), g.SetNS, s, client.PropagationPolicy(metav1.DeletePropagationOrphan))
			e.Logf("  (orphan propagation)")
		} else {
			e.Delete("user", false, PKO(g.SetKind), g.SetNS, s)
		}
	}
}

// Run executes the whole random scenario.
func (g *Rand) Run() {
	g.newRevision()
	for i := 0; i < g.P.Steps; i++ {
		g.Step()
	}
	if g.P.FinalQuiesce > 0 {
		// lift foreign finalizers so that teardowns can finish, then let everything settle
		n, ok := g.E.Quiesce(g.P.FinalQuiesce)
		g.E.Logf("final quiescence after %d rounds: %v", n, ok)
	}
}

func WeightsWith(over map[string]int) map[string]int {
	out := map[string]int{}
	for k, v := range DefaultWeights {
		out[k] = v
	}
	for k, v := range over {
		out[k] = v
	}
	return out
}

var _ = sort.Strings
var _ = strings.Join
