// Package c12 decides property C12 (dynamic cache reference counting) on the real
// dynamiccache.Cache: exhaustive sequential op sequences with scripted informer start
// failures against a reference model, concurrent histories checked with porcupine under
// the race detector, and a configuration with the real InformerMap over client-go's fake
// dynamic client.
package c12

import (
	"context"
	"errors"
	"fmt"
	"math/rand"
	"runtime"
	"sort"
	"strings"
	"sync"
	"sync/atomic"
	"time"

	"github.com/anishathalye/porcupine"
	apimachineryerrors "k8s.io/apimachinery/pkg/api/errors"
	"k8s.io/apimachinery/pkg/api/meta"
	metav1 "k8s.io/apimachinery/pkg/apis/meta/v1"
	"k8s.io/apimachinery/pkg/apis/meta/v1/unstructured"
	k8sruntime "k8s.io/apimachinery/pkg/runtime"
	"k8s.io/apimachinery/pkg/runtime/schema"
	"k8s.io/apimachinery/pkg/types"
	dynamicfake "k8s.io/client-go/dynamic/fake"
	"k8s.io/client-go/tools/cache"
	"k8s.io/client-go/util/workqueue"
	"sigs.k8s.io/controller-runtime/pkg/client"
	"sigs.k8s.io/controller-runtime/pkg/event"
	"sigs.k8s.io/controller-runtime/pkg/handler"
	"sigs.k8s.io/controller-runtime/pkg/reconcile"

	corev1alpha1 "package-operator.run/apis/core/v1alpha1"
	"package-operator.run/internal/dynamiccache"
	"package-operator.run/internal/verifharness/simcache"
	"package-operator.run/internal/verifharness/vh"
)

var (
	kindsAll = []schema.GroupVersionKind{
		{Group: "", Version: "v1", Kind: "ConfigMap"},
		{Group: "", Version: "v1", Kind: "Secret"},
		{Group: "apps", Version: "v1", Kind: "Deployment"},
	}
	scheme = func() *k8sruntime.Scheme {
		s := k8sruntime.NewScheme()
		if err := corev1alpha1.AddToScheme(s); err != nil {
			panic(err)
		}
		return s
	}()
)

func owner(i int) *corev1alpha1.ObjectSet {
	return &corev1alpha1.ObjectSet{ObjectMeta: metav1.ObjectMeta{
		Name: fmt.Sprintf("owner-%d", i), Namespace: "ns", UID: types.UID(fmt.Sprintf("uid-%d", i)),
	}}
}

func watched(gvk schema.GroupVersionKind) *unstructured.Unstructured {
	u := &unstructured.Unstructured{}
	u.SetGroupVersionKind(gvk)
	u.SetName("obj")
	u.SetNamespace("ns")
	return u
}

// staticReader serves one object per kind.
type staticReader struct{ gvk schema.GroupVersionKind }

func (r staticReader) Get(_ context.Context, key client.ObjectKey, out client.Object, _ ...client.GetOption) error {
	if key.Name != "obj" {
		return apimachineryerrors.NewNotFound(schema.GroupResource{Group: r.gvk.Group, Resource: r.gvk.Kind}, key.Name)
	}
	u := out.(*unstructured.Unstructured)
	u.Object = watched(r.gvk).Object
	return nil
}

func (r staticReader) List(_ context.Context, out client.ObjectList, _ ...client.ListOption) error {
	l := out.(*unstructured.UnstructuredList)
	l.Items = []unstructured.Unstructured{*watched(r.gvk)}
	return nil
}

type opKind int

const (
	opWatch opKind = iota
	opFree
	opGet
	opList
	opOwners
)

type op struct {
	K     opKind
	Owner int
	Kind  int
}

func (o op) String() string {
	switch o.K {
	case opWatch:
		return fmt.Sprintf("Watch(o%d,k%d)", o.Owner, o.Kind)
	case opFree:
		return fmt.Sprintf("Free(o%d)", o.Owner)
	case opGet:
		return fmt.Sprintf("Get(k%d)", o.Kind)
	case opList:
		return fmt.Sprintf("List(k%d)", o.Kind)
	}
	return fmt.Sprintf("Owners(k%d)", o.Kind)
}

func alphabet(owners, kinds int) []op {
	var a []op
	for o := 0; o < owners; o++ {
		for k := 0; k < kinds; k++ {
			a = append(a, op{opWatch, o, k})
		}
	}
	for o := 0; o < owners; o++ {
		a = append(a, op{opFree, o, 0})
	}
	for k := 0; k < kinds; k++ {
		a = append(a, op{opGet, 0, k}, op{opList, 0, k}, op{opOwners, 0, k})
	}
	return a
}

type env struct {
	cache  *dynamiccache.Cache
	m      *simcache.Map
	queues []workqueue.TypedRateLimitingInterface[reconcile.Request]
	cancel context.CancelFunc
	ctx    context.Context
}

func newEnv(fail map[int]bool) *env {
	m := simcache.NewMap(func(gvk schema.GroupVersionKind) client.Reader { return staticReader{gvk} })
	for k, v := range fail {
		m.FailCreation[k] = v
	}
	c := dynamiccache.NewCacheWithInformerMap(scheme, m, nil)
	e := &env{cache: c, m: m}
	e.ctx, e.cancel = context.WithCancel(context.Background())
	// two controller handlers registered exactly as controllers do: Source(handler).Start(ctx, queue)
	for i := 0; i < 2; i++ {
		q := workqueue.NewTypedRateLimitingQueue(workqueue.DefaultTypedControllerRateLimiter[reconcile.Request]())
		h := handler.Funcs{
			CreateFunc: func(_ context.Context, ev event.CreateEvent, q workqueue.TypedRateLimitingInterface[reconcile.Request]) {
				q.Add(reconcile.Request{NamespacedName: types.NamespacedName{Name: fmt.Sprintf("%s-%d", ev.Object.GetName(), time.Now().UnixNano())}})
			},
		}
		if err := c.Source(h).Start(e.ctx, q); err != nil {
			panic(err)
		}
		e.queues = append(e.queues, q)
	}
	if err := c.Start(e.ctx); err != nil {
		panic(err)
	}
	return e
}

func (e *env) close() {
	e.cancel()
	for _, q := range e.queues {
		q.ShutDown()
	}
}

var fireSeq atomic.Int64

// delivered fires a synthetic Add on the informer and reports whether every registered queue got it.
func (e *env) delivered(inf *simcache.FakeInformer) bool {
	before := make([]int, len(e.queues))
	for i, q := range e.queues {
		before[i] = q.Len()
	}
	u := watched(inf.GVK)
	u.SetName(fmt.Sprintf("ev-%d", fireSeq.Add(1)))
	inf.FireAdd(u)
	for i, q := range e.queues {
		if q.Len() <= before[i] {
			return false
		}
	}
	return true
}

type model map[int]map[int]bool // kind -> owners

func (m model) key() string {
	var parts []string
	for k, os := range m {
		for o := range os {
			parts = append(parts, fmt.Sprintf("%d:%d", k, o))
		}
	}
	sort.Strings(parts)
	return strings.Join(parts, ",")
}

func isNotStarted(err error) bool {
	var e *dynamiccache.CacheNotStartedError
	return errors.As(err, &e)
}

// runSequence executes one op sequence on a fresh cache and checks every step.
func runSequence(c *vh.Ctx, seq []op, fail map[int]bool, kinds []schema.GroupVersionKind, seen map[string]bool) {
	e := newEnv(fail)
	defer e.close()
	md := model{}
	failedKind := map[int]bool{}
	anyFailed := false
	desc := func(i int) map[string]any {
		s := make([]string, len(seq))
		for j, o := range seq {
			s[j] = o.String()
		}
		fl := []int{}
		for k := range fail {
			fl = append(fl, k)
		}
		sort.Ints(fl)
		return map[string]any{"sequence": s, "failing_creation_attempts": fl, "step": i}
	}
	viol := func(i int, kind int, base, msg string) {
		sig := base
		if failedKind[kind] || (kind < 0 && anyFailed) {
			sig += ":after-failed-informer-start"
		}
		c.Violation(sig, fmt.Sprintf("%s at step %d of %v", msg, i, desc(i)["sequence"]), desc(i))
	}
	for i, o := range seq {
		if seen != nil {
			seen[md.key()+"|"+o.String()] = true
		}
		evBefore := len(e.m.Events())
		switch o.K {
		case opWatch:
			err := e.cache.Watch(simcache.WithOp(e.ctx, "watch"), owner(o.Owner), watched(kinds[o.Kind]))
			if err != nil {
				if !errors.Is(err, simcache.ErrScriptedStartFailure) {
					viol(i, o.Kind, "watch-unexpected-error", err.Error())
				}
				failedKind[o.Kind] = true
				anyFailed = true
				c.Count("watch_failed_start", 1)
				break
			}
			if failedKind[o.Kind] {
				c.Count("watch_retry_after_failed_start", 1)
			}
			if md[o.Kind] == nil {
				md[o.Kind] = map[int]bool{}
			}
			md[o.Kind][o.Owner] = true
			inf := e.m.Live(kinds[o.Kind])
			switch {
			case inf == nil:
				viol(i, o.Kind, "watch-ok-without-informer", "Watch returned nil but no informer runs for the kind")
			case !e.delivered(inf):
				viol(i, o.Kind, "informer-without-all-handlers", fmt.Sprintf("informer for %s has %d handlers, an event did not reach every controller queue", kinds[o.Kind].Kind, inf.Handlers()))
			}
			c.Count("watch_ok", 1)
		case opFree:
			if err := e.cache.Free(simcache.WithOp(e.ctx, "free"), owner(o.Owner)); err != nil {
				viol(i, -1, "free-error", err.Error())
			}
			for k := range md {
				delete(md[k], o.Owner)
				if len(md[k]) == 0 {
					delete(md, k)
				}
			}
			c.Count("free", 1)
		case opGet, opList:
			var err error
			name := "get"
			if o.K == opGet {
				out := watched(kinds[o.Kind])
				err = e.cache.Get(simcache.WithOp(e.ctx, "get"), client.ObjectKey{Namespace: "ns", Name: "obj"}, out)
			} else {
				name = "list"
				l := &unstructured.UnstructuredList{}
				l.SetGroupVersionKind(kinds[o.Kind].GroupVersion().WithKind(kinds[o.Kind].Kind + "List"))
				err = e.cache.List(simcache.WithOp(e.ctx, "list"), l)
			}
			if len(md[o.Kind]) == 0 {
				c.Count("read_unwatched", 1)
				if !isNotStarted(err) {
					viol(i, o.Kind, "read-of-unwatched-kind-did-not-fail:"+name, fmt.Sprintf("err=%v", err))
				}
			} else {
				c.Count("read_watched", 1)
				if err != nil {
					viol(i, o.Kind, "read-of-watched-kind-failed:"+name, fmt.Sprintf("err=%v", err))
				}
			}
		case opOwners:
			got := e.cache.OwnersForGKV(kinds[o.Kind])
			gs := []string{}
			for _, r := range got {
				gs = append(gs, r.Name)
			}
			sort.Strings(gs)
			ws := []string{}
			for ow := range md[o.Kind] {
				ws = append(ws, owner(ow).Name)
			}
			sort.Strings(ws)
			if strings.Join(gs, ",") != strings.Join(ws, ",") {
				viol(i, o.Kind, "owners-mismatch", fmt.Sprintf("OwnersForGKV=%v model=%v", gs, ws))
			}
			c.Count("owners", 1)
		}
		// invariants after every call
		for _, ev := range e.m.Events()[evBefore:] {
			if ev.Kind == "create" && (ev.Op == "get" || ev.Op == "list") {
				k := indexOf(kinds, ev.GVK)
				viol(i, k, "read-started-an-informer", fmt.Sprintf("%s created informer #%d for %s", ev.Op, ev.ID, ev.GVK.Kind))
			}
		}
		for k := range kinds {
			inf := e.m.Live(kinds[k])
			switch {
			case len(md[k]) > 0 && inf == nil:
				viol(i, k, "no-informer-for-watched-kind", kinds[k].Kind)
			case len(md[k]) == 0 && inf != nil:
				viol(i, k, "informer-runs-for-unwatched-kind", fmt.Sprintf("%s (created by %s)", kinds[k].Kind, inf.CreatedBy))
			}
			if inf != nil && !e.delivered(inf) {
				viol(i, k, "informer-without-all-handlers", fmt.Sprintf("informer #%d for %s (created by %s) has %d handlers", inf.ID, kinds[k].Kind, inf.CreatedBy, inf.Handlers()))
			}
		}
	}
	c.Eval()
}

func indexOf(kinds []schema.GroupVersionKind, g schema.GroupVersionKind) int {
	for i, k := range kinds {
		if k == g {
			return i
		}
	}
	return -1
}

var failScripts = []map[int]bool{{}, {1: true}, {2: true}, {1: true, 2: true}, {3: true}}

func sequential(c *vh.Ctx) {
	kinds := kindsAll[:2]
	alpha := alphabet(2, 2)
	maxLen := c.N(4, 5)
	var mu sync.Mutex
	seenAll := map[string]bool{}
	for L := 1; L <= maxLen; L++ {
		total := 1
		for i := 0; i < L; i++ {
			total *= len(alpha)
		}
		vh.Parallel(total, func(idx int) {
			seq := make([]op, L)
			x := idx
			watches := 0
			for i := 0; i < L; i++ {
				seq[i] = alpha[x%len(alpha)]
				if seq[i].K == opWatch {
					watches++
				}
				x /= len(alpha)
			}
			var seen map[string]bool
			if L <= 4 {
				seen = map[string]bool{}
			}
			for fi, f := range failScripts {
				if fi > 0 && watches == 0 {
					continue // no creation attempt can happen
				}
				runSequence(c, seq, f, kinds, seen)
				if watches > 0 {
					c.DistinctAdd("seq", 1)
				}
			}
			if seen != nil {
				mu.Lock()
				for k := range seen {
					seenAll[k] = true
				}
				mu.Unlock()
			}
		})
		c.Count(fmt.Sprintf("sequences_len_%d_exhaustive", L), total)
	}
	c.SetExtra("exhaustive", true)
	c.SetExtra("exhaustive_scope", fmt.Sprintf("all sequences up to length %d over %d ops (2 owners x 2 kinds) x %d informer-start failure scripts", maxLen, len(alpha), len(failScripts)))
	c.Count("model_state_x_op_pairs_seen", len(seenAll))
	// 16 model states x 12 ops reachable within length 4+? states need up to 4 watches; pairs seen with L<=4: states with <=3 pairs
	c.Gate("model_state_x_op_pairs_seen", len(seenAll) >= 150, fmt.Sprintf("%d (need >= 150)", len(seenAll)))

	// random longer sequences with 3 owners x 3 kinds
	n := c.N(20000, 150000)
	alpha3 := alphabet(3, 3)
	vh.Parallel(n, func(i int) {
		if c.Skip("c12-random", i) {
			return
		}
		r := c.Rand("c12-random", i)
		L := 5 + r.Intn(8)
		seq := make([]op, L)
		for j := range seq {
			seq[j] = alpha3[r.Intn(len(alpha3))]
			if r.Intn(3) == 0 {
				seq[j] = alpha3[r.Intn(9)] // bias to Watch
			}
		}
		f := map[int]bool{}
		if r.Intn(2) == 0 {
			f[1+r.Intn(4)] = true
			if r.Intn(3) == 0 {
				f[1+r.Intn(6)] = true
			}
		}
		runSequence(c, seq, f, kindsAll, nil)
		c.Distinct(fmt.Sprintf("%v|%v", seq, f))
	})
	c.Count("sequences_random", n)
}

// ---- concurrent histories ------------------------------------------------------------------

type hin struct {
	Op    opKind
	Owner int
	Kind  int
}

type hout struct {
	Started bool   // Get/List: kind was readable
	Owners  string // Owners: sorted list
	Err     string
}

func pairsOf(state string) map[string]bool {
	m := map[string]bool{}
	if state == "" {
		return m
	}
	for _, p := range strings.Split(state, ",") {
		m[p] = true
	}
	return m
}

func stateOf(m map[string]bool) string {
	ps := make([]string, 0, len(m))
	for p := range m {
		ps = append(ps, p)
	}
	sort.Strings(ps)
	return strings.Join(ps, ",")
}

var cacheModel = porcupine.Model{
	Init: func() any { return "" },
	Step: func(state, input, output any) (bool, any) {
		st := pairsOf(state.(string))
		in := input.(hin)
		out := output.(hout)
		switch in.Op {
		case opWatch:
			if out.Err != "" {
				return false, state
			}
			st[fmt.Sprintf("%d:%d", in.Kind, in.Owner)] = true
			return true, stateOf(st)
		case opFree:
			if out.Err != "" {
				return false, state
			}
			for p := range st {
				if strings.HasSuffix(p, fmt.Sprintf(":%d", in.Owner)) {
					delete(st, p)
				}
			}
			return true, stateOf(st)
		case opGet, opList:
			watchedKind := false
			for p := range st {
				if strings.HasPrefix(p, fmt.Sprintf("%d:", in.Kind)) {
					watchedKind = true
				}
			}
			return out.Started == watchedKind, state
		default:
			var os []string
			for p := range st {
				if strings.HasPrefix(p, fmt.Sprintf("%d:", in.Kind)) {
					os = append(os, p[strings.IndexByte(p, ':')+1:])
				}
			}
			sort.Strings(os)
			return out.Owners == strings.Join(os, ","), state
		}
	},
	Equal: func(a, b any) bool { return a.(string) == b.(string) },
	DescribeOperation: func(in, out any) string {
		i := in.(hin)
		return fmt.Sprintf("%s -> %+v", op{i.Op, i.Owner, i.Kind}, out.(hout))
	},
}

func concurrent(c *vh.Ctx) {
	n := c.N(600, 12000)
	var clock atomic.Int64
	for i := 0; i < n; i++ {
		if c.Skip("c12-concurrent", i) {
			continue
		}
		r := c.Rand("c12-concurrent", i)
		G := 4 + r.Intn(9)
		per := 2 + r.Intn(3)
		nOwners := 2 + r.Intn(3)
		nKinds := 1 + r.Intn(2)
		kinds := kindsAll[:nKinds]
		e := newEnv(nil)
		delay := r.Intn(3)
		e.m.OnGet = func(context.Context, schema.GroupVersionKind) {
			switch delay {
			case 1:
				runtime.Gosched()
			case 2:
				time.Sleep(time.Duration(20) * time.Microsecond)
			}
		}
		progs := make([][]hin, G)
		for g := range progs {
			for j := 0; j < per; j++ {
				var o hin
				switch r.Intn(10) {
				case 0, 1, 2, 3:
					o = hin{opWatch, r.Intn(nOwners), r.Intn(nKinds)}
				case 4, 5:
					o = hin{opFree, r.Intn(nOwners), 0}
				case 6:
					o = hin{opGet, 0, r.Intn(nKinds)}
				case 7:
					o = hin{opList, 0, r.Intn(nKinds)}
				default:
					o = hin{opOwners, 0, r.Intn(nKinds)}
				}
				progs[g] = append(progs[g], o)
			}
		}
		var mu sync.Mutex
		var hist []porcupine.Operation
		var wg sync.WaitGroup
		start := make(chan struct{})
		for g := 0; g < G; g++ {
			wg.Add(1)
			go func(g int) {
				defer wg.Done()
				<-start
				for _, in := range progs[g] {
					var out hout
					t0 := clock.Add(1)
					switch in.Op {
					case opWatch:
						if err := e.cache.Watch(simcache.WithOp(e.ctx, "watch"), owner(in.Owner), watched(kinds[in.Kind])); err != nil {
							out.Err = err.Error()
						}
					case opFree:
						if err := e.cache.Free(simcache.WithOp(e.ctx, "free"), owner(in.Owner)); err != nil {
							out.Err = err.Error()
						}
					case opGet:
						err := e.cache.Get(simcache.WithOp(e.ctx, "get"), client.ObjectKey{Namespace: "ns", Name: "obj"}, watched(kinds[in.Kind]))
						out.Started = !isNotStarted(err)
						if err != nil && !isNotStarted(err) {
							out.Err = err.Error()
						}
					case opList:
						l := &unstructured.UnstructuredList{}
						l.SetGroupVersionKind(kinds[in.Kind].GroupVersion().WithKind(kinds[in.Kind].Kind + "List"))
						err := e.cache.List(simcache.WithOp(e.ctx, "list"), l)
						out.Started = !isNotStarted(err)
						if err != nil && !isNotStarted(err) {
							out.Err = err.Error()
						}
					case opOwners:
						var os []string
						for _, ref := range e.cache.OwnersForGKV(kinds[in.Kind]) {
							os = append(os, strings.TrimPrefix(ref.Name, "owner-"))
						}
						sort.Strings(os)
						out.Owners = strings.Join(os, ",")
					}
					t1 := clock.Add(1)
					mu.Lock()
					hist = append(hist, porcupine.Operation{ClientId: g, Input: in, Call: t0, Output: out, Return: t1})
					mu.Unlock()
				}
			}(g)
		}
		close(start)
		wg.Wait()
		c.Eval()
		desc := map[string]any{"index": i, "stream": "c12-concurrent", "goroutines": G, "ops_each": per, "owners": nOwners, "kinds": nKinds}
		res, info := porcupine.CheckOperationsVerbose(cacheModel, hist, 20*time.Second)
		switch res {
		case porcupine.Ok:
			c.Count("histories_linearizable", 1)
		case porcupine.Illegal:
			lines := []string{}
			for _, h := range hist {
				lines = append(lines, fmt.Sprintf("[%d,%d] g%d %s", h.Call, h.Return, h.ClientId, cacheModel.DescribeOperation(h.Input, h.Output)))
			}
			desc["history"] = lines
			_ = info
			c.Violation("history-not-linearizable", "concurrent Watch/Free/Get/List/OwnersForGKV history has no sequential explanation", desc)
		default:
			c.Count("histories_checker_timeout", 1)
		}
		// quiescent invariants
		for _, ev := range e.m.Events() {
			if ev.Kind == "create" && (ev.Op == "get" || ev.Op == "list") {
				c.Violation("read-started-an-informer:concurrent", fmt.Sprintf("%s created informer #%d for %s", ev.Op, ev.ID, ev.GVK.Kind), desc)
			}
		}
		for k := range kinds {
			owners := e.cache.OwnersForGKV(kinds[k])
			inf := e.m.Live(kinds[k])
			switch {
			case len(owners) > 0 && inf == nil:
				c.Violation("no-informer-for-watched-kind:concurrent", kinds[k].Kind, desc)
			case len(owners) == 0 && inf != nil:
				c.Violation("informer-runs-for-unwatched-kind:concurrent", fmt.Sprintf("%s created by %s", kinds[k].Kind, inf.CreatedBy), desc)
			}
			if inf != nil && !e.delivered(inf) {
				c.Violation("informer-without-all-handlers:concurrent", kinds[k].Kind, desc)
			}
		}
		// every informer that was stopped stays silent, every kind has at most one live informer (by construction of the map)
		shape := make([]string, 0, len(hist))
		sort.Slice(hist, func(a, b int) bool { return hist[a].Call < hist[b].Call })
		overlap := 0
		for a := range hist {
			in := hist[a].Input.(hin)
			shape = append(shape, fmt.Sprintf("%d%d%d", in.Op, in.Owner, in.Kind))
			if a > 0 && hist[a].Call < hist[a-1].Return {
				overlap++
			}
		}
		if overlap > 0 {
			c.Distinct(strings.Join(shape, " ") + fmt.Sprintf("|%d", overlap))
			c.Count("histories_with_overlapping_ops", 1)
		}
		c.Count("history_ops", len(hist))
		if i < 2 {
			s := []string{}
			for _, h := range hist {
				s = append(s, fmt.Sprintf("[%d,%d] g%d %s", h.Call, h.Return, h.ClientId, cacheModel.DescribeOperation(h.Input, h.Output)))
			}
			c.Sample(map[string]any{"kind": "concurrent history", "ops": s, "porcupine": string(res)})
		}
		e.close()
	}
}

// ---- real InformerMap over the fake dynamic client ------------------------------------------

type recordingMap struct {
	inner *dynamiccache.InformerMap
	mu    sync.Mutex
	infs  map[schema.GroupVersionKind][]cache.SharedIndexInformer
	byOp  []string
}

func (m *recordingMap) Get(ctx context.Context, gvk schema.GroupVersionKind, obj k8sruntime.Object) (cache.SharedIndexInformer, client.Reader, error) {
	inf, rd, err := m.inner.Get(ctx, gvk, obj)
	if err == nil {
		m.mu.Lock()
		l := m.infs[gvk]
		if len(l) == 0 || l[len(l)-1] != inf {
			m.infs[gvk] = append(l, inf)
		}
		m.mu.Unlock()
	}
	return inf, rd, err
}

func (m *recordingMap) Delete(ctx context.Context, gvk schema.GroupVersionKind) error {
	return m.inner.Delete(ctx, gvk)
}

func realMap(c *vh.Ctx) {
	n := c.N(60, 800)
	mapper := meta.NewDefaultRESTMapper(nil)
	for _, k := range kindsAll {
		mapper.Add(k, meta.RESTScopeNamespace)
	}
	listKinds := map[schema.GroupVersionResource]string{}
	for _, k := range kindsAll {
		mp, err := mapper.RESTMapping(k.GroupKind(), k.Version)
		if err != nil {
			panic(err)
		}
		listKinds[mp.Resource] = k.Kind + "List"
	}
	vh.Parallel(n, func(i int) {
		if c.Skip("c12-realmap", i) {
			return
		}
		r := c.Rand("c12-realmap", i)
		dyn := dynamicfake.NewSimpleDynamicClientWithCustomListKinds(k8sruntime.NewScheme(), listKinds)
		inner := dynamiccache.NewInformerMapWithDynamicClient(dyn, scheme, mapper, time.Hour, nil, nil)
		rm := &recordingMap{inner: inner, infs: map[schema.GroupVersionKind][]cache.SharedIndexInformer{}}
		ch := dynamiccache.NewCacheWithInformerMap(scheme, rm, nil)
		ctx, cancel := context.WithTimeout(context.Background(), 20*time.Second)
		defer cancel()
		md := model{}
		L := 4 + r.Intn(6)
		alpha := alphabet(2, 2)
		seqS := []string{}
		for j := 0; j < L; j++ {
			o := alpha[r.Intn(len(alpha))]
			seqS = append(seqS, o.String())
			desc := map[string]any{"index": i, "stream": "c12-realmap", "sequence": seqS}
			switch o.K {
			case opWatch:
				if err := ch.Watch(ctx, owner(o.Owner), watched(kindsAll[o.Kind])); err != nil {
					c.Violation("realmap-watch-error", err.Error(), desc)
					return
				}
				if md[o.Kind] == nil {
					md[o.Kind] = map[int]bool{}
				}
				md[o.Kind][o.Owner] = true
			case opFree:
				if err := ch.Free(ctx, owner(o.Owner)); err != nil {
					c.Violation("realmap-free-error", err.Error(), desc)
				}
				for k := range md {
					delete(md[k], o.Owner)
					if len(md[k]) == 0 {
						delete(md, k)
					}
				}
			case opGet:
				err := ch.Get(ctx, client.ObjectKey{Namespace: "ns", Name: "obj"}, watched(kindsAll[o.Kind]))
				if (len(md[o.Kind]) == 0) != isNotStarted(err) {
					c.Violation("realmap-read-mismatch", fmt.Sprintf("watched=%v err=%v", len(md[o.Kind]) > 0, err), desc)
				}
			default:
			}
			// real informers: running iff watched; stopped after the last Free (bounded wait)
			for k := 0; k < 2; k++ {
				rm.mu.Lock()
				l := append([]cache.SharedIndexInformer{}, rm.infs[kindsAll[k]]...)
				rm.mu.Unlock()
				for idx, inf := range l {
					last := idx == len(l)-1
					wantRunning := last && len(md[k]) > 0
					ok := false
					for w := 0; w < 500; w++ {
						if inf.IsStopped() != wantRunning {
							ok = true
							break
						}
						time.Sleep(2 * time.Millisecond)
					}
					if !ok {
						if wantRunning {
							c.Violation("realmap-informer-stopped-while-watched", kindsAll[k].Kind, desc)
						} else {
							c.Violation("realmap-informer-not-stopped-after-last-free", kindsAll[k].Kind, desc)
						}
					}
					if !wantRunning {
						c.Count("real_informers_observed_stopped", 1)
					} else {
						c.Count("real_informers_observed_running", 1)
					}
				}
			}
		}
		// release everything so that no informer goroutine outlives the case
		_ = ch.Free(ctx, owner(0))
		_ = ch.Free(ctx, owner(1))
		c.Eval()
		c.Distinct("real|" + strings.Join(seqS, " "))
	})
}

func Run(c *vh.Ctx) {
	sequential(c)
	concurrent(c)
	realMap(c)
	c.GateCount("watch_ok", 1000)
	c.GateCount("watch_failed_start", 100)
	c.GateCount("watch_retry_after_failed_start", 50)
	c.GateCount("read_unwatched", 500)
	c.GateCount("read_watched", 500)
	c.GateCount("histories_linearizable", 100)
	c.GateCount("histories_with_overlapping_ops", 100)
	c.GateCount("real_informers_observed_stopped", 20)
	c.Finish("exploration",
		"(1) every sequence up to the length bound over {Watch(o,k),Free(o),Get(k),List(k),OwnersForGKV(k)} x 2 owners x 2 kinds x informer-start failure scripts on a fresh real Cache, checked step by step against a kind->owner-set model; (2) random longer sequences with 3 owners x 3 kinds; (3) concurrent histories from real goroutines checked by porcupine against the same model; (4) random sequences over the real InformerMap with client-go's fake dynamic client. non-trivial = the sequence contains a Watch (1,2) / ops overlapped in time (3); distinct = distinct sequences / distinct op orders",
		[]string{
			"informers are fakes created by a scripted informer map in (1)-(3); the Cache, its cacheSource and handler registration are the real code (hook: NewCacheWithInformerMap)",
			"a Watch that returns an error is modelled as having registered nothing",
			"concurrent interleavings are those produced by the Go scheduler under perturbation",
			"porcupine timeouts (20 s per history) are counted as inconclusive, not as violations",
		})
}

var _ = rand.Int
