// Package chk06 decides property C06 (ObjectSet status never claims more than the pass observed).
package chk06

import (
	"math/rand"
	"strings"

	"package-operator.run/internal/verifharness/chkfam"
	"package-operator.run/internal/verifharness/driver"
	"package-operator.run/internal/verifharness/monitors"
	"package-operator.run/internal/verifharness/scen"
	"package-operator.run/internal/verifharness/vh"
)

func Run(c *vh.Ctx) {
	chkfam.Run(c, chkfam.Config{
		Stream: "c06", NQuick: 450, NThorough: 5000,
		Profile: func(r *rand.Rand) scen.Profile {
			return scen.Profile{
				Steps: 60 + r.Intn(60), Cluster: r.Intn(4) == 0, Hosted: r.Intn(4) == 0, Delegated: []float64{0, 0.3, 0.5}[r.Intn(3)], MaxRevisions: 1 + r.Intn(3),
				Weights: scen.WeightsWith(map[string]int{"reconcile": 45, "workload": 20, "adv-delete": 3, "adv-reown": 2, "adv-edit": 3, "user-archive": 4, "user-delete": 2, "user-pause": 3, "user-unpause": 3,
					"user-next-revision": 5, "fault": 4, "restart": 2, "user-touch-spec": 4, "adv-create": 0, "adv-relabel": 1, "adv-recreate": 1}),
				CPs: []string{"", "None", "IfNoController"}, LagMax: []int{0, 2, 4, 6}[r.Intn(4)],
				Sliced: r.Intn(3) == 0, SliceSeed: r.Int63(),
			}
		},
		Options: func(p scen.Profile, r *rand.Rand) driver.Options {
			o := driver.Options{Hosted: p.Hosted}
			if p.Sliced {
				// the ObjectSlice informer lags behind: a fresh slice is not readable for a while
				hide := int64(8 + r.Intn(40))
				o.CachedHideYoungKind = func(kind string) int64 {
					if strings.HasSuffix(kind, "ObjectSlice") {
						return hide
					}
					return -1
				}
			}
			if p.LagMax > 0 {
				lr := rand.New(rand.NewSource(r.Int63()))
				o.CachedLag = func() int64 { return lr.Int63n(int64(p.LagMax) + 1) }
			}
			return o
		},
		Monitors:          func() []scen.Monitor { return []scen.Monitor{&monitors.C06{}} },
		NonTrivialCounter: "c06_status_writes",
		Gates: []chkfam.Gate{{"c06_available_true_written", 200}, {"c06_available_false_written", 200}, {"c06_succeeded_set", 15}, {"c06_intransition_cleared", 12},
			{"c06_archived_true_written", 30}, {"c06_passes_on_archived_set", 30}, {"c06_controllerof_complete_checked", 60}},
		Rule:        "run = random rollout / handover / probe regression / pause / archival / deletion histories with generation bumps between observation and status write, a lagging manager cache (status updates then hit 409), injected API errors, lost responses, crashes and restarts; every successful status write is compared with what the same pass observed (states read or returned by its own writes), condition histories are checked online; non-trivial = the run contains status writes; distinct = distinct step logs",
		Assumptions: []string{"the manager's cached client may serve ObjectSets up to 6 commits old in three quarters of the runs"},
	})
}
