package chk14

import (
	"context"
	"encoding/json"
	"fmt"
	"reflect"
	"strings"
	"sync"

	"github.com/go-logr/logr"
	metav1 "k8s.io/apimachinery/pkg/apis/meta/v1"
	"k8s.io/apimachinery/pkg/apis/meta/v1/unstructured"
	"k8s.io/apimachinery/pkg/types"
	"sigs.k8s.io/controller-runtime/pkg/reconcile"

	corev1alpha1 "package-operator.run/apis/core/v1alpha1"
	"package-operator.run/internal/apis/manifests"
	pkgcontrollers "package-operator.run/internal/controllers/packages"
	"package-operator.run/internal/packages"
	"package-operator.run/internal/utils"
	"package-operator.run/internal/verifharness/driver"
	"package-operator.run/internal/verifharness/pkggen"
	"package-operator.run/internal/verifharness/pkomodel"
	"package-operator.run/internal/verifharness/scen"
	"package-operator.run/internal/verifharness/simkube"
	"package-operator.run/internal/verifharness/vh"
)

const chunkLimit = 1024 * 1024

type registry struct {
	mu     sync.Mutex
	images map[string]*pkggen.Spec
}

func (r *registry) Pull(_ context.Context, ref string) (*packages.RawPackage, error) {
	r.mu.Lock()
	defer r.mu.Unlock()
	s, ok := r.images[ref]
	if !ok {
		return nil, fmt.Errorf("unknown image %s", ref)
	}
	return &packages.RawPackage{Files: s.Files()}, nil
}

// gcMonitor: slice garbage collection never deletes a slice still referenced by the deployment template or an ObjectSet.
type gcMonitor struct {
	// hide: how many requests a freshly created object stays invisible to the Package controller's cache (nil: none)
	hide *int64
	// youngDeleted: slices deleted while the ObjectSet referencing them was not yet visible in the cache
	youngDeleted map[string]bool
}

func (gcMonitor) OnPassEnd(*scen.Env, driver.PassResult) {}

func (m gcMonitor) OnRequest(e *scen.Env, req *simkube.Request) {
	if req.Verb != "delete" || req.DryRun || req.Err != nil || !strings.HasSuffix(req.GVK.Kind, "ObjectSlice") || req.Pass == nil {
		return
	}
	e.Count("c14_slice_deletes")
	st := req.InStore()
	for _, k := range st.KeysLocked() {
		if k.Namespace != req.Key.Namespace {
			continue
		}
		o := st.PeekLocked(k)
		switch {
		case strings.HasSuffix(k.Kind, "ObjectDeployment"):
			if d := pkomodel.DeploymentFrom(o); d != nil {
				for _, ph := range d.Template.Spec.Phases {
					for _, sl := range ph.Slices {
						if sl == req.Key.Name {
							e.Report("C14:gc-deleted-slice-referenced-by-deployment-template", fmt.Sprintf("%s deleted while %s %s references it: %s", req.Key.Name, k.Kind, k.Name, req))
						}
					}
				}
			}
		case k.Kind == "ObjectSet" || k.Kind == "ClusterObjectSet":
			if ow := pkomodel.OwnerFrom(o); ow != nil {
				for _, ph := range ow.Phases {
					for _, sl := range ph.Slices {
						if sl == req.Key.Name {
							e.Count("c14_gc_keep_checked")
							sig := "C14:gc-deleted-slice-referenced-by-objectset"
							// age of the referencing ObjectSet when this pass listed the ObjectSets
							age := st.AgeLocked(k)
							for _, pr := range req.Pass.Requests {
								if pr.Verb == "list" && strings.HasSuffix(pr.GVK.Kind, "ObjectSet") {
									age = st.AgeLocked(k) - int64(req.Seq-pr.Seq)
								}
							}
							if m.hide != nil && age <= *m.hide {
								// the referencing ObjectSet was created so recently that the controller's cached list does not show it yet
								sig += ":objectset-not-yet-visible-in-cache"
								if m.youngDeleted != nil {
									m.youngDeleted[req.Key.Name] = true
								}
							}
							e.Report(sig, fmt.Sprintf("%s deleted while %s %s (revision %d) references it: %s", req.Key.Name, k.Kind, k.Name, ow.Revision, req))
						}
					}
				}
			}
		}
	}
}

func jsonSize(o unstructured.Unstructured) int {
	b, _ := json.Marshal(&o)
	return len(b)
}

// referenceChunks: next-fit bin packing written from the documentation of the strategy.
func referenceChunks(strategy string, objs []corev1alpha1.ObjectSetObject) [][]corev1alpha1.ObjectSetObject {
	switch strategy {
	case "NoOp":
		return nil
	case "EachObject":
		var out [][]corev1alpha1.ObjectSetObject
		for _, o := range objs {
			out = append(out, []corev1alpha1.ObjectSetObject{o})
		}
		return out
	}
	var out [][]corev1alpha1.ObjectSetObject
	var cur []corev1alpha1.ObjectSetObject
	size := 0
	for _, o := range objs {
		s := jsonSize(o.Object)
		if size > 0 && size+s > chunkLimit {
			out = append(out, cur)
			cur, size = nil, 0
		}
		cur = append(cur, o)
		size += s
	}
	if len(out) == 0 {
		return nil // everything fits: objects stay inline
	}
	return append(out, cur)
}

func chunkCase(c *vh.Ctx, i int) {
	r := c.Rand("c14-chunking", i)
	reg := &registry{images: map[string]*pkggen.Spec{}}
	env := manifests.PackageEnvironment{Kubernetes: manifests.PackageEnvironmentKubernetes{Version: "1.27.3"}}
	e, err := scen.NewEnv(r, driver.Options{
		Controllers: []string{driver.CtrlObjectDeployment, driver.CtrlObjectSet},
		Extra: func(dw *driver.World) map[string]reconcile.Reconciler {
			pc := pkgcontrollers.NewPackageController(dw.Cached, dw.Uncached, logr.Discard(), driver.Scheme, reg, nil, nil, nil)
			pc.SetEnvironment(&env)
			return map[string]reconcile.Reconciler{driver.CtrlPackage: pc}
		},
	}, gcMonitor{})
	if err != nil {
		panic(err)
	}
	ctx, cl := e.W.Actor("setup")
	driver.MustCreate(ctx, cl, driver.Namespace("ns"))
	strategy := []string{"", "BinpackNextFit", "EachObject", "NoOp"}[r.Intn(4)]
	// size pattern around the limit
	pattern := r.Intn(6)
	n := 2 + r.Intn(5)
	target := make([]int, n)
	for k := range target {
		target[k] = 300 + r.Intn(2000)
	}
	switch pattern {
	case 1: // one object above the limit on its own
		target[r.Intn(n)] = chunkLimit + 1 + r.Intn(5000)
	case 2, 3, 4: // the sum of the first objects hits limit-1, limit, limit+1
		split := 1 + r.Intn(n-1)
		rest := chunkLimit + (pattern - 3)
		for k := 0; k < split-1; k++ {
			rest -= target[k]
		}
		target[split-1] = rest
	case 5: // many tiny after one huge
		target[0] = chunkLimit - 500
	}
	spec := &pkggen.Spec{Name: "chunky", Variant: i, Scopes: []string{"Namespaced"}, ManifestExt: "yaml", Phases: []string{"main"}}
	for k := 0; k < n; k++ {
		spec.Objects = append(spec.Objects, pkggen.Obj{Kind: "ConfigMap", Name: fmt.Sprintf("obj-%02d", k), Phase: "main", PadBytes: 1})
	}
	if r.Intn(3) == 0 {
		spec.Phases = append(spec.Phases, "second")
		spec.Objects = append(spec.Objects, pkggen.Obj{Kind: "ConfigMap", Name: "small-last", Phase: "second"})
	}
	// measure the rendered base sizes with a one byte pad, then pad to the targets
	render := func() []corev1alpha1.ObjectSetTemplatePhase {
		raw := &packages.RawPackage{Files: spec.Files()}
		loaded, err := packages.DefaultStructuralLoader.LoadComponent(context.Background(), raw, "")
		if err != nil {
			panic(err)
		}
		inst, err := packages.RenderPackageInstance(context.Background(), loaded, packages.PackageRenderContext{
			Package: manifests.TemplateContextPackage{TemplateContextObjectMeta: manifests.TemplateContextObjectMeta{Name: "pkg", Namespace: "ns"}, Image: "quay.io/verif/chunky:v1"},
			Config:  map[string]any{}, Images: map[string]string{}, Environment: env,
		}, packages.DefaultPackageValidators, packages.DefaultObjectValidators)
		if err != nil {
			panic(err)
		}
		return packages.RenderObjectSetTemplateSpec(inst).Phases
	}
	base := render()
	for k := 0; k < n; k++ {
		sz := jsonSize(base[0].Objects[k].Object)
		pad := target[k] - sz + 1
		if pad < 1 {
			pad = 1
		}
		spec.Objects[k].PadBytes = pad
	}
	want := render()
	reg.images["quay.io/verif/chunky:v1"] = spec
	// a planted ObjectSlice with the name the deployer will compute, holding other content or owned by someone else
	planted := ""
	var plantedBefore simkube.Obj
	if chunks := referenceChunks(strategy, want[0].Objects); len(chunks) > 0 && r.Intn(2) == 0 {
		zero := int32(0)
		planted = "pkg-" + utils.ComputeFNV32Hash(chunks[0], &zero)
		sl := &corev1alpha1.ObjectSlice{ObjectMeta: metav1.ObjectMeta{Name: planted, Namespace: "ns"}}
		if r.Intn(2) == 0 {
			sl.Objects = []corev1alpha1.ObjectSetObject{scen.ObjectSetObject(scen.Object(scen.GVKConfigMap, "", "someone-elses", "x"), "")}
		} else {
			sl.Objects = chunks[0] // same content, but not controlled by the deployment
		}
		if err := e.Create("third-party", false, sl); err != nil {
			panic(err)
		}
		plantedBefore = e.W.Store.Peek(scen.PKO("ObjectSlice").GroupKind(), "ns", planted)
		c.Count("chunking_planted_collisions", 1)
	}
	pkg := &corev1alpha1.Package{ObjectMeta: metav1.ObjectMeta{Name: "pkg", Namespace: "ns"}, Spec: corev1alpha1.PackageSpec{Image: "quay.io/verif/chunky:v1"}}
	if strategy != "" {
		pkg.Annotations = map[string]string{"packages.package-operator.run/chunking-strategy": strategy}
	}
	if err := e.Create("user", false, pkg); err != nil {
		panic(err)
	}
	key := types.NamespacedName{Namespace: "ns", Name: "pkg"}
	pr := e.Reconcile(driver.CtrlPackage, key)
	c.Eval()
	dump := map[string]any{"index": i, "stream": "c14-chunking", "strategy": strategy, "pattern": pattern, "targets": target, "steps": e.Log, "trace": e.TraceTail(60)}
	if pr.Err != nil {
		c.Violation("C14:deploy-of-valid-package-failed", pr.Err.Error(), dump)
		return
	}
	d := pkomodel.DeploymentFrom(e.W.Store.Peek(scen.PKO("ObjectDeployment").GroupKind(), "ns", "pkg"))
	if d == nil {
		c.Violation("C14:no-deployment", "no ObjectDeployment after the pass", dump)
		return
	}
	sliceNames := []string{}
	for pi, ph := range d.Template.Spec.Phases {
		got := append([]corev1alpha1.ObjectSetObject{}, ph.Objects...)
		for _, sn := range ph.Slices {
			sliceNames = append(sliceNames, sn)
			so := e.W.Store.Peek(scen.PKO("ObjectSlice").GroupKind(), "ns", sn)
			if so == nil {
				c.Violation("C14:template-references-missing-slice", sn, dump)
				continue
			}
			if sn == planted {
				c.Violation("C14:colliding-slice-name-reused", fmt.Sprintf("the template references the planted ObjectSlice %s", sn), dump)
			}
			b, _ := json.Marshal(so)
			var sl corev1alpha1.ObjectSlice
			_ = json.Unmarshal(b, &sl)
			total := 0
			for _, o := range sl.Objects {
				total += jsonSize(o.Object)
			}
			if total > chunkLimit && len(sl.Objects) > 1 {
				c.Violation("C14:slice-above-limit", fmt.Sprintf("%s holds %d objects with %d bytes", sn, len(sl.Objects), total), dump)
			}
			if total > chunkLimit-3 && total <= chunkLimit {
				c.Count("chunking_slice_at_limit", 1)
			}
			if !pkomodel.IsController(pkomodel.Ref{Group: pkomodel.Group, Kind: "ObjectDeployment", Name: "pkg", UID: d.UID}, so, pkomodel.Native) {
				c.Violation("C14:slice-not-controlled-by-deployment", sn, dump)
			}
			got = append(got, sl.Objects...)
		}
		if pi >= len(want) {
			c.Violation("C14:extra-phase", ph.Name, dump)
			continue
		}
		if !reflect.DeepEqual(pkomodel.Canon(want[pi].Objects), stripCP(pkomodel.Canon(got))) {
			c.Violation("C14:concatenation-differs-from-rendered-phase", fmt.Sprintf("phase %s: rendered %d objects, inline+slices hold %d", ph.Name, len(want[pi].Objects), len(got)), dump)
		}
	}
	if len(sliceNames) > 0 {
		c.Count("chunking_cases_with_slices", 1)
	}
	c.Count("chunking_strategy_"+map[string]string{"": "unset"}[strategy]+strategy, 1)
	if planted != "" {
		after := e.W.Store.Peek(scen.PKO("ObjectSlice").GroupKind(), "ns", planted)
		if !reflect.DeepEqual(plantedBefore, after) {
			c.Violation("C14:planted-slice-modified", planted, dump)
		}
	}
	// content-determined names: a second package with the same content gets the same name suffixes
	pkg2 := &corev1alpha1.Package{ObjectMeta: metav1.ObjectMeta{Name: "pkg2", Namespace: "ns", Annotations: pkg.Annotations}, Spec: corev1alpha1.PackageSpec{Image: "quay.io/verif/chunky:v1"}}
	if planted == "" && len(sliceNames) > 0 {
		if err := e.Create("user", false, pkg2); err == nil {
			e.Reconcile(driver.CtrlPackage, types.NamespacedName{Namespace: "ns", Name: "pkg2"})
			d2 := pkomodel.DeploymentFrom(e.W.Store.Peek(scen.PKO("ObjectDeployment").GroupKind(), "ns", "pkg2"))
			var names2 []string
			if d2 != nil {
				for _, ph := range d2.Template.Spec.Phases {
					names2 = append(names2, ph.Slices...)
				}
			}
			// the instance label differs between the two packages, so only the number and order of slices are comparable,
			// names are compared between two deploys of the very same package instead:
			if len(names2) != len(sliceNames) {
				c.Violation("C14:chunk-count-depends-on-instance", fmt.Sprintf("%v vs %v", sliceNames, names2), dump)
			}
		}
	}
	// re-deploy (spec touched): the same content must reuse the same slice names
	e.Mutate("user", false, scen.PKO("Package"), "ns", "pkg", "touch spec (paused=false explicit)", func(u *unstructured.Unstructured) {
		_ = unstructured.SetNestedField(u.Object, map[string]any{"touch": "1"}, "spec", "config")
	})
	e.Reconcile(driver.CtrlPackage, key)
	dAgain := pkomodel.DeploymentFrom(e.W.Store.Peek(scen.PKO("ObjectDeployment").GroupKind(), "ns", "pkg"))
	var again []string
	if dAgain != nil {
		for _, ph := range dAgain.Template.Spec.Phases {
			again = append(again, ph.Slices...)
		}
	}
	if !reflect.DeepEqual(again, sliceNames) && !(len(again) == 0 && len(sliceNames) == 0) {
		c.Violation("C14:slice-names-not-content-determined", fmt.Sprintf("first deploy %v, second deploy of the same content %v", sliceNames, again), dump)
	}
	// a second version whose first chunk name is already taken by a slice of this very deployment holding other content
	// (what a genuine 32 bit hash collision between two chunks looks like)
	if dAgain != nil && strategy != "NoOp" {
		spec.Variant = i + 100000
		want2 := render()
		if chunks := referenceChunks(strategy, want2[0].Objects); len(chunks) > 0 {
			zero := int32(0)
			name := "pkg-" + utils.ComputeFNV32Hash(chunks[0], &zero)
			tr := true
			sl := &corev1alpha1.ObjectSlice{ObjectMeta: metav1.ObjectMeta{Name: name, Namespace: "ns",
				Labels: map[string]string{"slices.package-operator.run/owner": "pkg"},
				OwnerReferences: []metav1.OwnerReference{{APIVersion: "package-operator.run/v1alpha1", Kind: "ObjectDeployment", Name: "pkg",
					UID: types.UID(dAgain.UID), Controller: &tr, BlockOwnerDeletion: &tr}}},
				Objects: []corev1alpha1.ObjectSetObject{scen.ObjectSetObject(scen.Object(scen.GVKConfigMap, "", "other-chunk", "x"), "")}}
			if err := e.Create("hash-collision", false, sl); err == nil {
				c.Count("chunking_own_slice_collisions", 1)
				reg.mu.Lock()
				reg.images["quay.io/verif/chunky:v2"] = spec
				reg.mu.Unlock()
				e.Mutate("user", false, scen.PKO("Package"), "ns", "pkg", "image := v2", func(u *unstructured.Unstructured) {
					_ = unstructured.SetNestedField(u.Object, "quay.io/verif/chunky:v2", "spec", "image")
				})
				pr := e.Reconcile(driver.CtrlPackage, key)
				d2 := pkomodel.DeploymentFrom(e.W.Store.Peek(scen.PKO("ObjectDeployment").GroupKind(), "ns", "pkg"))
				if pr.Err == nil && d2 != nil {
					for pi, ph := range d2.Template.Spec.Phases {
						got := append([]corev1alpha1.ObjectSetObject{}, ph.Objects...)
						for _, sn := range ph.Slices {
							if sn == name {
								c.Violation("C14:colliding-slice-name-reused", fmt.Sprintf("the template references %s, which holds other content of the same deployment", sn), dump)
							}
							if so := e.W.Store.Peek(scen.PKO("ObjectSlice").GroupKind(), "ns", sn); so != nil {
								b, _ := json.Marshal(so)
								var x corev1alpha1.ObjectSlice
								_ = json.Unmarshal(b, &x)
								got = append(got, x.Objects...)
							}
						}
						if pi < len(want2) && !reflect.DeepEqual(pkomodel.Canon(want2[pi].Objects), stripCP(pkomodel.Canon(got))) {
							c.Violation("C14:concatenation-differs-from-rendered-phase", fmt.Sprintf("second version, phase %s: rendered %d objects, inline+slices hold %d", ph.Name, len(want2[pi].Objects), len(got)), dump)
						}
					}
				}
			}
		}
	}
	for _, v := range e.Viol {
		c.Violation(v.Sig, v.Msg, dump)
	}
	for k, v := range e.Counts {
		c.Count(k, v)
	}
	c.Distinct(fmt.Sprintf("%s|%d|%v", strategy, pattern, target))
	if i < 1 {
		c.Sample(map[string]any{"stream": "c14-chunking", "strategy": strategy, "pattern": pattern, "target_sizes": target, "slices": sliceNames})
	}
}

func stripCP(v any) any {
	l, ok := v.([]any)
	if !ok {
		return v
	}
	for _, x := range l {
		if m, ok := x.(map[string]any); ok && m["collisionProtection"] == "Prevent" {
			delete(m, "collisionProtection")
		}
	}
	return v
}

func chunking(c *vh.Ctx) {
	n := c.N(40, 800)
	vh.Parallel(n, func(i int) {
		if c.Skip("c14-chunking", i) {
			return
		}
		chunkCase(c, i)
	})
	c.GateCount("chunking_cases_with_slices", 8)
	c.GateCount("chunking_slice_at_limit", 1)
	c.GateCount("chunking_planted_collisions", 3)
	c.GateCount("chunking_own_slice_collisions", 4)
}
