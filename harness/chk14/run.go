package chk14

import (
	"package-operator.run/internal/verifharness/chkfam"
	"package-operator.run/internal/verifharness/vh"
)

func Run(c *vh.Ctx) {
	transparency(c)
	slicedWithLag(c)
	chunking(c)
	gc(c)
	c.GateCount("transparency_pairs_with_slices", 30)
	c.Finish("exploration",
		"(1) transparency: the same seeded scenario (rollout, handover, drift, pause, archive, delete) is run inline and with the objects moved into ObjectSlices; projected end state and per-object write order are compared and the C03-C06 monitors run on the sliced twin; (1b) sliced runs behind a manager cache that hides freshly created objects (slices not yet readable) under the same monitors, which take the phase content from the stored slices; (2) chunking: the real PackageDeployer runs on packages whose rendered object sizes are placed around the 1 MiB chunk limit for every chunking strategy; concatenation, slice size bound, content-determined names and planted name collisions are checked on the stored objects; (3) slice garbage collection: every ObjectSlice delete is checked online against the references held by the stored deployment template and ObjectSets; non-trivial = the run contains ObjectSlices; distinct = distinct step logs",
		chkfam.CommonAssumptions)
}
