// Package chk14 decides property C14 (ObjectSlices are a transparent, lossless encoding of phase objects).
package chk14

import (
	"fmt"
	"reflect"
	"strings"

	"package-operator.run/internal/verifharness/driver"
	"package-operator.run/internal/verifharness/monitors"
	"package-operator.run/internal/verifharness/scen"
	"package-operator.run/internal/verifharness/vh"
)

// transparency: the same scenario (same PRNG stream) is run with the objects inline and with the objects in
// ObjectSlices; the end state of the managed objects and of the ObjectSets' statuses and the order of effective
// writes per managed object must be the same. The monitors of C03-C06 run on the sliced twin as well.
func transparency(c *vh.Ctx) {
	n := c.N(60, 1000)
	vh.Parallel(n, func(i int) {
		if c.Skip("c14-transparency", i) {
			return
		}
		run := func(sliced bool) (*scen.Env, *scen.Rand) {
			r := c.Rand("c14-transparency", i)
			prof := scen.Profile{
				Steps: 50 + r.Intn(50), Cluster: r.Intn(4) == 0, MaxRevisions: 1 + r.Intn(3), Sliced: sliced, SliceSeed: int64(i),
				Weights: scen.WeightsWith(map[string]int{"reconcile": 45, "workload": 15, "adv-delete": 3, "adv-edit": 3, "user-archive": 5, "user-delete": 3, "user-pause": 2, "user-unpause": 2,
					"user-next-revision": 5, "gc": 4, "adv-create": 0, "adv-reown": 1, "adv-relabel": 1, "adv-recreate": 1, "restart": 1}),
				CPs: []string{"", "None", "IfNoController"}, FinalQuiesce: 10,
			}
			var mons []scen.Monitor
			if sliced {
				mons = []scen.Monitor{&monitors.C03{}, &monitors.C04{}, &monitors.C05{}, &monitors.C06{}}
			}
			e, err := scen.NewEnv(r, driver.Options{}, mons...)
			if err != nil {
				panic(err)
			}
			g := scen.NewRandom(e, prof)
			g.Run()
			return e, g
		}
		a, _ := run(false)
		b, _ := run(true)
		c.Eval()
		dump := map[string]any{"index": i, "stream": "c14-transparency", "steps_inline": a.Log, "steps_sliced": b.Log, "trace_sliced": b.TraceTail(400)}
		for _, v := range b.Viol {
			c.Violation(v.Sig+":sliced-objectset", v.Msg, dump)
		}
		slices := 0
		for _, l := range b.Log {
			if strings.Contains(l, "ObjectSlice") {
				slices++
			}
		}
		if slices == 0 {
			return
		}
		c.Count("transparency_pairs_with_slices", 1)
		if d := scen.Diff(a.Project(false), b.Project(false)); len(d) > 0 {
			kind := "end-state"
			c.Violation("C14:sliced-run-differs-from-inline:"+kind, fmt.Sprintf("%d differences, first:\n    %s", len(d), d[0]), dump)
		} else if !reflect.DeepEqual(a.WriteOrder(), b.WriteOrder()) {
			wa, wb := a.WriteOrder(), b.WriteOrder()
			for k := range wa {
				if !reflect.DeepEqual(wa[k], wb[k]) {
					c.Violation("C14:sliced-run-differs-from-inline:write-order", fmt.Sprintf("%s:\n  inline %v\n  sliced %v", k, wa[k], wb[k]), dump)
					break
				}
			}
		} else {
			c.Count("transparency_pairs_equal", 1)
		}
		c.Distinct(strings.Join(b.Log, "\n"))
		if i < 1 {
			c.Sample(map[string]any{"stream": "c14-transparency", "steps_sliced": b.Log})
		}
	})
}

// slicedWithLag: sliced ObjectSets whose controller reads through a manager cache that does not yet show objects created
// a few requests ago (a freshly created ObjectSlice next to its ObjectSet); the C03-C06 monitors judge every pass on the
// phases as the stored slices define them, also when the pass itself could not read a slice.
func slicedWithLag(c *vh.Ctx) {
	n := c.N(60, 1000)
	vh.Parallel(n, func(i int) {
		if c.Skip("c14-sliced-lag", i) {
			return
		}
		r := c.Rand("c14-sliced-lag", i)
		prof := scen.Profile{
			Steps: 50 + r.Intn(50), Cluster: r.Intn(4) == 0, MaxRevisions: 1 + r.Intn(3), Sliced: true, SliceSeed: int64(i),
			Weights: scen.WeightsWith(map[string]int{"reconcile": 45, "workload": 15, "adv-delete": 2, "adv-edit": 2, "user-archive": 3, "user-delete": 2, "user-pause": 1, "user-unpause": 2,
				"user-next-revision": 6, "gc": 3, "adv-create": 0, "adv-reown": 0, "adv-relabel": 0, "adv-recreate": 0, "restart": 1}),
			CPs: []string{"", "None", "IfNoController"}, FinalQuiesce: 10,
		}
		// the ObjectSlice informer lags: a slice stays invisible for a number of requests after its creation
		hide := int64(20 + r.Intn(200))
		e, err := scen.NewEnv(r, driver.Options{CachedHideYoungKind: func(kind string) int64 {
			if strings.HasSuffix(kind, "ObjectSlice") {
				return hide
			}
			return -1
		}}, &monitors.C03{}, &monitors.C04{}, &monitors.C05{}, &monitors.C06{})
		if err != nil {
			panic(err)
		}
		g := scen.NewRandom(e, prof)
		g.Run()
		c.Eval()
		c.Count("sliced_lag_runs", 1)
		for _, req := range e.W.Store.Trace() {
			if req.Pass != nil && req.Verb == "get" && strings.HasSuffix(req.GVK.Kind, "ObjectSlice") && req.Err != nil {
				c.Count("sliced_lag_slice_reads_not_found", 1)
			}
		}
		for _, v := range e.Viol {
			c.Violation(v.Sig+":sliced-objectset:stale-cache", v.Msg, map[string]any{"index": i, "stream": "c14-sliced-lag", "steps": e.Log, "trace": e.TraceTail(400)})
		}
		c.Distinct(strings.Join(e.Log, "\n"))
	})
	c.GateCount("sliced_lag_slice_reads_not_found", 20)
}
