package chk14

import (
	"fmt"
	"strings"

	"github.com/go-logr/logr"
	metav1 "k8s.io/apimachinery/pkg/apis/meta/v1"
	"k8s.io/apimachinery/pkg/apis/meta/v1/unstructured"
	"k8s.io/apimachinery/pkg/types"
	"sigs.k8s.io/controller-runtime/pkg/reconcile"

	corev1alpha1 "package-operator.run/apis/core/v1alpha1"
	"package-operator.run/internal/apis/manifests"
	pkgcontrollers "package-operator.run/internal/controllers/packages"
	"package-operator.run/internal/verifharness/driver"
	"package-operator.run/internal/verifharness/pkggen"
	"package-operator.run/internal/verifharness/pkomodel"
	"package-operator.run/internal/verifharness/scen"
	"package-operator.run/internal/verifharness/vh"
)

// gcHistory: a package is updated through versions that add and drop slices while the ObjectDeployment and ObjectSet
// controllers produce, archive and prune revisions; gcMonitor judges every ObjectSlice delete at its commit instant.
func gcHistory(c *vh.Ctx, i int) {
	r := c.Rand("c14-gc", i)
	reg := &registry{images: map[string]*pkggen.Spec{}}
	env := manifests.PackageEnvironment{Kubernetes: manifests.PackageEnvironmentKubernetes{Version: "1.27.3"}}
	hide := int64(0)
	youngDeleted := map[string]bool{}
	stale := r.Intn(3) == 0
	e, err := scen.NewEnv(r, driver.Options{
		Controllers:     []string{driver.CtrlObjectDeployment, driver.CtrlObjectSet},
		CachedHideYoung: func() int64 { return hide },
		Extra: func(dw *driver.World) map[string]reconcile.Reconciler {
			pc := pkgcontrollers.NewPackageController(dw.Cached, dw.Uncached, logr.Discard(), driver.Scheme, reg, nil, nil, nil)
			pc.SetEnvironment(&env)
			return map[string]reconcile.Reconciler{driver.CtrlPackage: pc}
		},
	}, gcMonitor{hide: &hide, youngDeleted: youngDeleted})
	if err != nil {
		panic(err)
	}
	ctx, cl := e.W.Actor("setup")
	driver.MustCreate(ctx, cl, driver.Namespace("ns"))
	// versions: subsets of a pool of objects with per-version content for some of them, so versions share some slices
	nv := 3 + r.Intn(3)
	var refs []string
	for v := 0; v < nv; v++ {
		s := &pkggen.Spec{Name: "app", Variant: 0, Scopes: []string{"Namespaced"}, ManifestExt: "yaml", Phases: []string{"one", "two"}}
		for k := 0; k < 6; k++ {
			if r.Intn(3) == 0 {
				continue
			}
			o := pkggen.Obj{Kind: "ConfigMap", Name: fmt.Sprintf("cm-%d", k), Phase: s.Phases[k%2]}
			if r.Intn(2) == 0 {
				o.PadBytes = 1 + v // content differs per version
			}
			s.Objects = append(s.Objects, o)
		}
		if len(s.Objects) == 0 {
			s.Objects = append(s.Objects, pkggen.Obj{Kind: "ConfigMap", Name: "cm-0", Phase: "one"})
		}
		ref := fmt.Sprintf("quay.io/verif/app:v%d", v)
		reg.images[ref] = s
		refs = append(refs, ref)
	}
	pkg := &corev1alpha1.Package{ObjectMeta: metav1.ObjectMeta{Name: "pkg", Namespace: "ns",
		Annotations: map[string]string{"packages.package-operator.run/chunking-strategy": "EachObject"}},
		Spec: corev1alpha1.PackageSpec{Image: refs[0]}}
	if err := e.Create("user", false, pkg); err != nil {
		panic(err)
	}
	key := types.NamespacedName{Namespace: "ns", Name: "pkg"}
	steps := 30 + r.Intn(30)
	for s := 0; s < steps; s++ {
		if stale {
			hide = int64(r.Intn(12))
		}
		switch r.Intn(10) {
		case 0, 1, 2:
			e.Reconcile(driver.CtrlPackage, key)
		case 3, 4, 5:
			if work := e.W.AllWork(); len(work) > 0 {
				wk := work[r.Intn(len(work))]
				e.Reconcile(wk.Ctrl, wk.Key)
			}
		case 6, 7:
			ref := refs[r.Intn(len(refs))]
			e.Mutate("user", false, scen.PKO("Package"), "ns", "pkg", "image := "+ref, func(u *unstructured.Unstructured) {
				_ = unstructured.SetNestedField(u.Object, ref, "spec", "image")
			})
			if r.Intn(2) == 0 {
				e.Reconcile(driver.CtrlPackage, key)
			}
		case 8:
			// let everything settle: revisions become available and older ones are archived
			hide = 0
			e.Quiesce(6)
		case 9:
			e.GC()
			// every other time the user also deletes an archived revision by hand: it stays around, terminating, until
			// the ObjectSet controller has finalized it, and the slices it names must survive that long (no PRNG draw)
			if s%2 == 0 {
				for _, k := range driver.Keys(e.W.Store, "ObjectSet") {
					ow := pkomodel.OwnerFrom(e.W.Store.Peek(scen.PKO("ObjectSet").GroupKind(), k.Namespace, k.Name))
					if ow != nil && ow.Archived && !ow.Deleting {
						if e.Delete("user", false, scen.PKO("ObjectSet"), k.Namespace, k.Name) {
							e.Count("c14_archived_revisions_deleted_by_user")
						}
						break
					}
				}
			}
		}
	}
	hide = 0
	e.Quiesce(12)
	// at rest nothing references a slice that does not exist
	st := e.W.Store
	archivedRefs := 0
	for k, o := range st.Snapshot() {
		var phases []pkomodel.Phase
		switch {
		case k.Kind == "ObjectSet":
			if ow := pkomodel.OwnerFrom(o); ow != nil && !ow.Deleting {
				phases = ow.Phases
				if ow.Archived {
					for _, ph := range ow.Phases {
						archivedRefs += len(ph.Slices)
					}
				}
			}
		case k.Kind == "ObjectDeployment":
			if d := pkomodel.DeploymentFrom(o); d != nil {
				for _, ph := range d.Template.Spec.Phases {
					phases = append(phases, pkomodel.Phase{Name: ph.Name, Slices: ph.Slices})
				}
			}
		}
		for _, ph := range phases {
			for _, sn := range ph.Slices {
				e.Count("c14_references_checked_at_rest")
				if st.Peek(scen.PKO("ObjectSlice").GroupKind(), "ns", sn) == nil {
					sig := "C14:referenced-slice-missing-at-rest"
					if youngDeleted[sn] {
						sig += ":deleted-while-objectset-not-yet-visible-in-cache"
					}
					e.Report(sig, fmt.Sprintf("%s %s references ObjectSlice %s which does not exist", k.Kind, k.Name, sn))
				}
			}
		}
	}
	if archivedRefs > 0 {
		c.Count("gc_histories_with_slices_only_archived_sets_reference", 1)
	}
	c.Eval()
	for _, v := range e.Viol {
		sig := v.Sig
		if stale && !strings.HasSuffix(sig, "objectset-not-yet-visible-in-cache") {
			sig += ":stale-cache"
		}
		c.Violation(sig, v.Msg, map[string]any{"index": i, "stream": "c14-gc", "stale": stale, "steps": e.Log, "trace": e.TraceTail(300)})
	}
	for k, v := range e.Counts {
		c.Count(k, v)
	}
	c.Distinct(strings.Join(e.Log, "\n"))
	if i < 1 {
		c.Sample(map[string]any{"stream": "c14-gc", "steps": e.Log})
	}
}

func gc(c *vh.Ctx) {
	n := c.N(150, 3000)
	vh.Parallel(n, func(i int) {
		if c.Skip("c14-gc", i) {
			return
		}
		gcHistory(c, i)
	})
	c.GateCount("c14_slice_deletes", 50)
	c.GateCount("gc_histories_with_slices_only_archived_sets_reference", 10)
}
