// Package refprobe is a reference evaluator for ObjectSet availability probes, written
// from the API documentation of ObjectSetProbe (apis/core/v1alpha1) and from the
// property statement C17. It deliberately imports nothing from pkg/probing or
// internal/probing.
package refprobe

import (
	"encoding/json"
	"reflect"
	"strings"
	"sync"

	"github.com/google/cel-go/cel"
	"github.com/google/cel-go/ext"
	metav1 "k8s.io/apimachinery/pkg/apis/meta/v1"
	"k8s.io/apiserver/pkg/cel/library"

	corev1alpha1 "package-operator.run/apis/core/v1alpha1"
)

type Tri int

const (
	Fail Tri = iota
	Pass
	Unspecified // the documentation does not say what happens for this shape
)

func get(obj map[string]any, path ...string) (any, bool) {
	var cur any = obj
	for _, p := range path {
		m, ok := cur.(map[string]any)
		if !ok {
			return nil, false
		}
		cur, ok = m[p]
		if !ok {
			return nil, false
		}
	}
	return cur, true
}

func asInt(v any) (int64, bool) {
	switch t := v.(type) {
	case int64:
		return t, true
	case int:
		return int64(t), true
	case int32:
		return int64(t), true
	case json.Number:
		i, err := t.Int64()
		return i, err == nil
	}
	return 0, false
}

func Generation(obj map[string]any) int64 {
	v, ok := get(obj, "metadata", "generation")
	if !ok {
		return 0
	}
	i, _ := asInt(v)
	return i
}

func groupKind(obj map[string]any) (string, string) {
	apiVersion, _ := obj["apiVersion"].(string)
	kind, _ := obj["kind"].(string)
	group := ""
	if i := strings.IndexByte(apiVersion, '/'); i >= 0 {
		group = apiVersion[:i]
	}
	return group, kind
}

func objLabels(obj map[string]any) map[string]string {
	out := map[string]string{}
	v, ok := get(obj, "metadata", "labels")
	if !ok {
		return out
	}
	m, ok := v.(map[string]any)
	if !ok {
		return out
	}
	for k, x := range m {
		if s, ok := x.(string); ok {
			out[k] = s
		}
	}
	return out
}

// LabelSelectorMatches implements the documented semantics of metav1.LabelSelector.
// ok=false when the selector is invalid (unknown operator, In/NotIn without values, Exists with values).
func LabelSelectorMatches(sel *metav1.LabelSelector, lbls map[string]string) (match, ok bool) {
	if sel == nil {
		return true, true
	}
	match = true
	for k, v := range sel.MatchLabels {
		if got, has := lbls[k]; !has || got != v {
			match = false
		}
	}
	for _, e := range sel.MatchExpressions {
		got, has := lbls[e.Key]
		in := false
		for _, v := range e.Values {
			if v == got {
				in = true
			}
		}
		switch e.Operator {
		case metav1.LabelSelectorOpIn:
			if len(e.Values) == 0 {
				return false, false
			}
			if !has || !in {
				match = false
			}
		case metav1.LabelSelectorOpNotIn:
			if len(e.Values) == 0 {
				return false, false
			}
			if has && in {
				match = false
			}
		case metav1.LabelSelectorOpExists:
			if len(e.Values) != 0 {
				return false, false
			}
			if !has {
				match = false
			}
		case metav1.LabelSelectorOpDoesNotExist:
			if len(e.Values) != 0 {
				return false, false
			}
			if has {
				match = false
			}
		default:
			return false, false
		}
	}
	return match, true
}

// Selects: does the probe entry's selector pick this object?
func Selects(sel corev1alpha1.ProbeSelector, obj map[string]any) bool {
	if sel.Kind != nil {
		g, k := groupKind(obj)
		if g != sel.Kind.Group || k != sel.Kind.Kind {
			return false
		}
	}
	m, ok := LabelSelectorMatches(sel.Selector, objLabels(obj))
	return ok && m
}

// Stale: status declares an (integer) observedGeneration different from metadata.generation.
func Stale(obj map[string]any) bool {
	v, ok := get(obj, "status", "observedGeneration")
	if !ok {
		return false
	}
	i, isInt := asInt(v)
	return isInt && i != Generation(obj)
}

// Condition evaluates a condition probe on shapes the documentation covers: status.conditions
// a list of condition objects with string type/status, at most one of the probed type.
func Condition(typ, status string, obj map[string]any) Tri {
	v, ok := get(obj, "status", "conditions")
	if !ok {
		return Fail // no conditions reported
	}
	list, ok := v.([]any)
	if !ok {
		return Fail // not a list of conditions - nothing is reported
	}
	var found map[string]any
	n := 0
	for _, e := range list {
		m, ok := e.(map[string]any)
		if !ok {
			return Unspecified
		}
		t, ok := m["type"].(string)
		if !ok {
			if _, has := m["type"]; has {
				return Unspecified
			}
			continue
		}
		if t == typ {
			n++
			if found == nil {
				found = m
			}
		}
	}
	if n == 0 {
		return Fail
	}
	if n > 1 {
		return Unspecified
	}
	if og, has := found["observedGeneration"]; has {
		i, isInt := asInt(og)
		if !isInt {
			return Unspecified
		}
		if i != Generation(obj) {
			return Fail
		}
	}
	s, ok := found["status"].(string)
	if !ok {
		return Fail
	}
	if s == status {
		return Pass
	}
	return Fail
}

func splitPath(p string) []string {
	return strings.Split(strings.Trim(p, "."), ".")
}

// FieldsEqual: both fields exist and hold equal JSON values.
func FieldsEqual(a, b string, obj map[string]any) Tri {
	va, ok := get(obj, splitPath(a)...)
	if !ok {
		return Fail
	}
	vb, ok := get(obj, splitPath(b)...)
	if !ok {
		return Fail
	}
	if jsonEqual(va, vb) {
		return Pass
	}
	return Fail
}

func jsonEqual(a, b any) bool {
	switch x := a.(type) {
	case map[string]any:
		y, ok := b.(map[string]any)
		if !ok || len(x) != len(y) {
			return false
		}
		for k, v := range x {
			w, has := y[k]
			if !has || !jsonEqual(v, w) {
				return false
			}
		}
		return true
	case []any:
		y, ok := b.([]any)
		if !ok || len(x) != len(y) {
			return false
		}
		for i := range x {
			if !jsonEqual(x[i], y[i]) {
				return false
			}
		}
		return true
	}
	return reflect.DeepEqual(a, b)
}

// CEL evaluates a rule with cel-go directly. ok=false: rule does not compile or is not boolean.
func CEL(rule string, obj map[string]any) (res Tri, ok bool) {
	celMu.Lock()
	prg, cached := celPrograms[rule]
	celMu.Unlock()
	if cached {
		if prg == nil {
			return Fail, false
		}
		return evalCEL(prg, obj), true
	}
	prg = compileCEL(rule)
	celMu.Lock()
	celPrograms[rule] = prg
	celMu.Unlock()
	if prg == nil {
		return Fail, false
	}
	return evalCEL(prg, obj), true
}

var (
	celMu       sync.Mutex
	celPrograms = map[string]cel.Program{}
)

func evalCEL(prg cel.Program, obj map[string]any) Tri {
	val, _, err := prg.Eval(map[string]any{"self": obj})
	if err != nil {
		return Fail
	}
	if b, isBool := val.Value().(bool); isBool && b {
		return Pass
	}
	return Fail
}

func compileCEL(rule string) cel.Program {
	env, err := cel.NewEnv(
		cel.Variable("self", cel.DynType),
		cel.HomogeneousAggregateLiterals(),
		cel.EagerlyValidateDeclarations(true),
		cel.DefaultUTCTimeZone(true),
		ext.Strings(ext.StringsVersion(0)),
		library.URLs(), library.Regex(), library.Lists(),
	)
	if err != nil {
		return nil
	}
	ast, iss := env.Compile(rule)
	if iss != nil && iss.Err() != nil {
		return nil
	}
	if ast.OutputType() != cel.BoolType {
		return nil
	}
	prg, err := env.Program(ast)
	if err != nil {
		return nil
	}
	return prg
}

// Leaf evaluates one probe. skip=true for probes without configuration.
func Leaf(p corev1alpha1.Probe, obj map[string]any) (res Tri, skip bool) {
	switch {
	case p.FieldsEqual != nil:
		return FieldsEqual(p.FieldsEqual.FieldA, p.FieldsEqual.FieldB, obj), false
	case p.Condition != nil:
		return Condition(p.Condition.Type, p.Condition.Status, obj), false
	case p.CEL != nil:
		r, ok := CEL(p.CEL.Rule, obj)
		if !ok {
			return Unspecified, false
		}
		return r, false
	}
	return Pass, true
}

// Eval: the object passes iff every selecting entry passes; an entry selecting a stale
// object fails whatever its probes. failing = number of failure reports expected (one per
// failing leaf, one per stale entry). unspecified=true when some leaf is outside the documented shapes.
func Eval(probes []corev1alpha1.ObjectSetProbe, obj map[string]any) (pass bool, failing int, unspecified bool) {
	pass = true
	for _, e := range probes {
		if !Selects(e.Selector, obj) {
			continue
		}
		if Stale(obj) {
			pass = false
			failing++
			continue
		}
		for _, p := range e.Probes {
			r, skip := Leaf(p, obj)
			if skip {
				continue
			}
			switch r {
			case Fail:
				pass = false
				failing++
			case Unspecified:
				unspecified = true
			}
		}
	}
	return pass, failing, unspecified
}
