// Package chk10 decides C10: reconciliation converges from any crash, fault or drift to the clean-run outcome.
//
// A scripted scenario (fixed desired state, fixed user actions, fixed workload plan) is executed once undisturbed
// and then again with a fault at one chosen API call of one chosen pass (error before effect, effect with lost
// response, crash + restart losing all in-memory state), with fault sequences and with third-party drift; after
// the disturbances stop every run must settle, reach the projection of the undisturbed run and stay there.
package chk10

import (
	"fmt"
	"math/rand"
	"sort"
	"strings"

	apierrors "k8s.io/apimachinery/pkg/api/errors"
	metav1 "k8s.io/apimachinery/pkg/apis/meta/v1"
	"k8s.io/apimachinery/pkg/apis/meta/v1/unstructured"
	"k8s.io/apimachinery/pkg/runtime/schema"

	corev1alpha1 "package-operator.run/apis/core/v1alpha1"
	"package-operator.run/internal/verifharness/chkfam"
	"package-operator.run/internal/verifharness/driver"
	"package-operator.run/internal/verifharness/scen"
	"package-operator.run/internal/verifharness/simkube"
	"package-operator.run/internal/verifharness/vh"
)

// ---- scripted scenarios ----

type step struct {
	Desc string
	Do   func(e *scen.Env)
}

type scenario struct {
	Family   string
	Hosted   bool
	Steps    []step
	NotReady map[string]bool // workloads (kind/name) that never become ready
	Managed  []managed       // objects drift may hit
}

type managed struct {
	GVK      schema.GroupVersionKind
	NS, Name string
}

func cp(r *rand.Rand, none bool) string {
	if none {
		return "None"
	}
	return []string{"", "", "Prevent", "IfNoController"}[r.Intn(4)]
}

func probes() []corev1alpha1.ObjectSetProbe {
	return []corev1alpha1.ObjectSetProbe{scen.AvailableProbe(scen.GVKDeployment), scen.AvailableProbe(scen.GVKWidget)}
}

func rounds(int) step { return step{Desc: "settle", Do: nil} }

// buildOpts: C15 runs the same scenario twice, with and without delegation.
type buildOpts struct {
	// Deleg overrides the drawn delegation decision of (revision, phase); nil keeps the drawn one
	Deleg func(rev int, phase string, drawn bool) bool
	// PhaseGames adds pause flips and out-of-band deletions of phase objects to the script
	PhaseGames bool
}

func build(r *rand.Rand) *scenario { return buildWith(r, buildOpts{}) }

func buildWith(r *rand.Rand, bo buildOpts) *scenario {
	sc := &scenario{NotReady: map[string]bool{}}
	ns := "ns"
	none := r.Intn(2) == 0
	obj := func(g schema.GroupVersionKind, name, content string) corev1alpha1.ObjectSetObject {
		ons := ns
		if g == scen.GVKClusterRole {
			ons = ""
		}
		return scen.ObjectSetObject(scen.Object(g, ons, name, content), cp(r, none))
	}
	add := func(g schema.GroupVersionKind, name string) {
		ons := ns
		if g == scen.GVKClusterRole {
			ons = ""
		}
		for _, m := range sc.Managed {
			if m.GVK == g && m.Name == name {
				return
			}
		}
		sc.Managed = append(sc.Managed, managed{g, ons, name})
	}
	class := func(rev int, phase string) string {
		drawn := r.Intn(3) == 0
		if bo.Deleg != nil {
			drawn = bo.Deleg(rev, phase, drawn)
		}
		if drawn {
			return "default"
		}
		return ""
	}
	template := func(v int, shape int) corev1alpha1.ObjectSetTemplateSpec {
		c := fmt.Sprintf("v%d", v)
		p1 := corev1alpha1.ObjectSetTemplatePhase{Name: "one", Class: class(v, "one"), Objects: []corev1alpha1.ObjectSetObject{obj(scen.GVKConfigMap, "cm-1", c), obj(scen.GVKDeployment, "dep-1", c)}}
		p2 := corev1alpha1.ObjectSetTemplatePhase{Name: "two", Class: class(v, "two")}
		switch (shape + v) % 3 {
		case 0:
			p2.Objects = []corev1alpha1.ObjectSetObject{obj(scen.GVKConfigMap, "cm-2", c), obj(scen.GVKWidget, "wd-1", c)}
			add(scen.GVKConfigMap, "cm-2")
			add(scen.GVKWidget, "wd-1")
		case 1:
			p2.Objects = []corev1alpha1.ObjectSetObject{obj(scen.GVKConfigMap, "cm-3", c)}
			add(scen.GVKConfigMap, "cm-3")
		case 2:
			p2.Objects = []corev1alpha1.ObjectSetObject{obj(scen.GVKConfigMap, "cm-2", "stable"), obj(scen.GVKDeployment, "dep-2", c)}
			add(scen.GVKConfigMap, "cm-2")
			add(scen.GVKDeployment, "dep-2")
		}
		add(scen.GVKConfigMap, "cm-1")
		add(scen.GVKDeployment, "dep-1")
		return corev1alpha1.ObjectSetTemplateSpec{Phases: []corev1alpha1.ObjectSetTemplatePhase{p1, p2}, AvailabilityProbes: probes()}
	}
	setup := step{"create namespace", func(e *scen.Env) {
		ctx, c := e.W.Actor("setup")
		driver.MustCreate(ctx, c, driver.Namespace(ns))
	}}
	sc.Steps = append(sc.Steps, setup)
	switch fam := r.Intn(3); fam {
	case 0: // ObjectDeployment rollouts
		sc.Family = "deployment"
		shape := r.Intn(3)
		nRev := 2 + r.Intn(2)
		lbl := map[string]string{"app.kubernetes.io/instance": "app"}
		var limit *int32
		if r.Intn(2) == 0 {
			l := int32(1 + r.Intn(2))
			limit = &l
		}
		tmpls := make([]corev1alpha1.ObjectSetTemplateSpec, nRev)
		for v := range tmpls {
			tmpls[v] = template(v+1, shape)
		}
		if r.Intn(2) == 0 {
			// the last revision never becomes available: its predecessor stays active next to it
			sc.NotReady["Deployment/dep-1"] = true
		}
		sc.Steps = append(sc.Steps, step{"create ObjectDeployment (template 1)", func(e *scen.Env) {
			// runs of one scenario execute concurrently: nothing reachable from the scenario may be handed to a client
			dep := (&corev1alpha1.ObjectDeployment{ObjectMeta: metav1.ObjectMeta{Name: "app", Namespace: ns},
				Spec: corev1alpha1.ObjectDeploymentSpec{RevisionHistoryLimit: limit, Selector: metav1.LabelSelector{MatchLabels: lbl},
					Template: corev1alpha1.ObjectSetTemplate{Metadata: metav1.ObjectMeta{Labels: lbl}, Spec: tmpls[0]}}}).DeepCopy()
			if err := e.Create("user", false, dep); err != nil {
				panic(err)
			}
		}}, rounds(1+r.Intn(4)))
		for v := 1; v < nRev; v++ {
			v := v
			sc.Steps = append(sc.Steps, step{fmt.Sprintf("user: template := %d", v+1), func(e *scen.Env) {
				e.Mutate("user", false, scen.PKO("ObjectDeployment"), ns, "app", fmt.Sprintf("template := %d", v+1), func(u *unstructured.Unstructured) {
					spec, _ := scen.ToUnstructured(tmpls[v].DeepCopy())
					_ = unstructured.SetNestedField(u.Object, spec, "spec", "template", "spec")
				})
			}}, rounds(1+r.Intn(4)))
		}
	case 1, 2: // hand-made revision chain of (Cluster)ObjectSets
		sc.Family = "objectsets"
		cluster := fam == 2
		setNS, kind := ns, "ObjectSet"
		if cluster {
			sc.Family = "clusterobjectsets"
			setNS, kind = "", "ClusterObjectSet"
		}
		shape := r.Intn(3)
		mk := func(v int, prev ...string) func(e *scen.Env) {
			t := template(v, shape)
			if cluster && r.Intn(2) == 0 {
				t.Phases[0].Objects = append(t.Phases[0].Objects, obj(scen.GVKClusterRole, "role-1", fmt.Sprintf("v%d", v)))
				add(scen.GVKClusterRole, "role-1")
			}
			return func(e *scen.Env) {
				t := t.DeepCopy()
				if err := e.Create("user", false, scen.NewObjectSet(setNS, fmt.Sprintf("set-%d", v), t.Phases, t.AvailabilityProbes, prev...)); err != nil {
					panic(err)
				}
			}
		}
		sc.Steps = append(sc.Steps, step{"create set-1", mk(1)}, rounds(1+r.Intn(4)))
		if bo.PhaseGames {
			phaseKind := kind + "Phase"
			if r.Intn(2) == 0 {
				sc.Steps = append(sc.Steps, step{"user: set-1 lifecycleState := Paused", func(e *scen.Env) {
					e.Mutate("user", false, scen.PKO(kind), setNS, "set-1", "lifecycleState := Paused", func(u *unstructured.Unstructured) {
						_ = unstructured.SetNestedField(u.Object, "Paused", "spec", "lifecycleState")
					})
				}}, rounds(1), step{"user: set-1 lifecycleState := Active", func(e *scen.Env) {
					e.Mutate("user", false, scen.PKO(kind), setNS, "set-1", "lifecycleState := Active", func(u *unstructured.Unstructured) {
						_ = unstructured.SetNestedField(u.Object, "Active", "spec", "lifecycleState")
					})
				}}, rounds(1))
			}
			if r.Intn(2) == 0 {
				sc.Steps = append(sc.Steps, step{"third party: delete the phase objects of set-1 (no-op without delegation)", func(e *scen.Env) {
					for _, k := range driver.Keys(e.W.Store, phaseKind) {
						if strings.HasPrefix(k.Name, "set-1-") {
							e.Count("c15_out_of_band_phase_object_deletions")
							e.Delete("third-party", false, scen.PKO(phaseKind), k.Namespace, k.Name)
						}
					}
				}}, rounds(1))
			}
		}
		sc.Steps = append(sc.Steps, step{"create set-2 (previous: set-1)", mk(2, "set-1")}, rounds(1+r.Intn(4)))
		life := func(name, state string) step {
			return step{"user: " + name + " lifecycleState := " + state, func(e *scen.Env) {
				e.Mutate("user", false, scen.PKO(kind), setNS, name, "lifecycleState := "+state, func(u *unstructured.Unstructured) {
					_ = unstructured.SetNestedField(u.Object, state, "spec", "lifecycleState")
				})
			}}
		}
		switch r.Intn(4) {
		case 0:
			sc.Steps = append(sc.Steps, life("set-1", "Archived"), rounds(1+r.Intn(3)))
		case 1:
			sc.Steps = append(sc.Steps, life("set-2", "Paused"), rounds(1+r.Intn(2)), life("set-2", "Active"), rounds(1+r.Intn(2)), life("set-1", "Archived"), rounds(1))
		case 2:
			sc.Steps = append(sc.Steps, life("set-1", "Archived"), rounds(1+r.Intn(2)), step{"user: delete set-2", func(e *scen.Env) {
				e.Delete("user", false, scen.PKO(kind), setNS, "set-2")
			}}, rounds(1))
		case 3:
			sc.Steps = append(sc.Steps, step{"user: delete set-1", func(e *scen.Env) {
				e.Delete("user", false, scen.PKO(kind), setNS, "set-1")
			}}, rounds(1+r.Intn(2)))
		}
		if r.Intn(4) == 0 {
			sc.NotReady["Deployment/dep-1"] = true
		}
	}
	return sc
}

// ---- execution ----

type disturbance struct {
	Kind string // "", error, conflict, lost, crash, drift-edit, drift-delete, drift-label
	At   int    // PKO request number (faults) or step index (drift)
	Obj  int    // managed object index (drift)
	// Quiet: the operator gets time to repair the drift (the stage settles) before the script goes on
	Quiet bool
}

type runResult struct {
	Proj       scen.Projection
	Requests   int
	Settled    bool
	ExtraSeq   int64 // commits caused by passes after settling (must be 0)
	Log        []string
	Trace      []string
	Fired      int
	PingPong   string
	StuckStage string
	PanicInfo  string
	Writes     []int
	Viol       []scen.Violation
	Counts     map[string]int
	Order      map[string][]string
	SetRev     map[string]int64 // every ObjectSet that ever reported a revision number
	// TeardownDryRun409: a 409 was injected into the dry-run preflight of a teardown pass
	TeardownDryRun409 int
	// DeploymentArchivalFaults: faults at the deployment controller's archive update / pruning delete
	DeploymentArchivalFaults int
}

func workload(e *scen.Env, sc *scenario) {
	for _, k := range []schema.GroupVersionKind{scen.GVKDeployment, scen.GVKWidget} {
		for key, o := range e.W.Store.Snapshot() {
			if key.Kind != k.Kind || key.Group != k.Group {
				continue
			}
			want := "ready"
			if sc.NotReady[key.Kind+"/"+key.Name] {
				want = "notready"
			}
			gen, _, _ := unstructured.NestedInt64(o, "metadata", "generation")
			og, _, _ := unstructured.NestedInt64(o, "status", "observedGeneration")
			conds, _, _ := unstructured.NestedSlice(o, "status", "conditions")
			cur := ""
			if len(conds) > 0 {
				if m, ok := conds[0].(map[string]any); ok {
					cur, _ = m["status"].(string)
				}
			}
			if (want == "ready" && og == gen && cur == "True") || (want == "notready" && cur == "False") {
				continue
			}
			e.WorkloadStatus(false, k, key.Namespace, key.Name, want)
		}
	}
}

func round(e *scen.Env, sc *scenario) (changed bool, failed int) {
	before := e.W.Store.Seq()
	workload(e, sc)
	work := e.W.AllWork()
	e.R.Shuffle(len(work), func(i, j int) { work[i], work[j] = work[j], work[i] })
	for _, wk := range work {
		pr := e.Reconcile(wk.Ctrl, wk.Key)
		if pr.Crashed {
			e.W.Restart()
			e.Logf("process restart after crash (all in-memory state incl. dynamic cache lost)")
		}
		if pr.Err != nil || pr.Crashed || pr.Panic != nil {
			failed++
		}
	}
	e.GC()
	return e.W.Store.Seq() != before, failed
}

// settle runs fair rounds until one commits nothing and no pass fails; if 40 rounds are not enough it reports who kept writing.
func settle(e *scen.Env, sc *scenario) (bool, string) {
	for k := 0; k < 40; k++ {
		changed, failed := round(e, sc)
		if !changed && failed == 0 {
			return true, ""
		}
	}
	from := len(e.W.Store.Trace())
	round(e, sc)
	round(e, sc)
	seen := map[string]int{}
	for _, rq := range e.W.Store.Trace()[from:] {
		if rq.IsWrite() && rq.Changed && rq.Pass != nil {
			seen[fmt.Sprintf("%s %s writes %s %s/%s", rq.Pass.Actor, rq.Pass.Key.Name, rq.GVK.Kind, rq.Key.Namespace, rq.Key.Name)]++
		}
	}
	var l []string
	for k, v := range seen {
		l = append(l, fmt.Sprintf("%s x%d", k, v))
	}
	sort.Strings(l)
	return false, strings.Join(l, "; ")
}

type counter struct {
	n      int
	panics []string
	// faults that hit the dry-run preflight of a teardown (the owner of the pass is archived or being deleted)
	teardownDryRun409 int
	writes            []int // request numbers of (non dry-run) writes
	// deploymentArchivalFaults: faults that hit the ObjectDeployment controller's archive update / pruning delete of a revision
	deploymentArchivalFaults int
}

func (c *counter) OnRequest(_ *scen.Env, req *simkube.Request) {
	if req.Pass != nil {
		c.n++
		if req.IsWrite() && !req.DryRun {
			c.writes = append(c.writes, c.n)
		}
		if req.Fault != "" && strings.HasSuffix(req.Pass.Actor, "ObjectDeployment") && strings.HasSuffix(req.GVK.Kind, "ObjectSet") && (req.Verb == "update" || req.Verb == "delete") {
			c.deploymentArchivalFaults++
		}
		if req.Fault == "error" && req.DryRun && req.Verb == "patch" && apierrors.IsConflict(req.Err) {
			if ow := scen.OwnerOfPass(req.Pass); ow != nil && (ow.Archived || ow.Deleting) {
				c.teardownDryRun409++
			}
		}
	}
}

func (c *counter) OnPassEnd(_ *scen.Env, pr driver.PassResult) {
	if pr.Panic != nil {
		c.panics = append(c.panics, fmt.Sprintf("%v\n%s", pr.Panic, pr.Stack))
	}
}

func execute(seed *rand.Rand, sc *scenario, ds []disturbance, extra ...scen.Monitor) runResult {
	cnt := &counter{}
	e, err := scen.NewEnv(seed, driver.Options{}, append([]scen.Monitor{cnt}, extra...)...)
	if err != nil {
		panic(err)
	}
	res := runResult{}
	// faults by PKO request number
	for _, d := range ds {
		d := d
		if strings.HasPrefix(d.Kind, "drift") || d.Kind == "" {
			continue
		}
		a := &scen.Armed{Desc: fmt.Sprintf("%s at PKO request #%d", d.Kind, d.At), Match: func(*simkube.Request) bool { return cnt.n+1 == d.At }}
		switch d.Kind {
		case "error":
			a.Fault, a.Err = simkube.FaultErrorBefore, apierrors.NewInternalError(fmt.Errorf("injected"))
		case "conflict":
			a.Fault, a.Err = simkube.FaultErrorBefore, apierrors.NewConflict(schema.GroupResource{Resource: "objects"}, "injected", fmt.Errorf("injected conflict"))
		case "lost":
			a.Fault = simkube.FaultLostResponse
		case "crash":
			a.Fault = simkube.FaultCrash
		}
		e.Arm(a)
	}
	for si, st := range sc.Steps {
		for _, d := range ds {
			if d.Kind == "drift-delete-phase" && d.At == si {
				// a delegated phase's ObjectSetPhase is deleted out of band; PKO re-creates it (new UID) and everything below it
				var ks []struct{ kind, ns, name string }
				for _, kind := range []string{"ObjectSetPhase", "ClusterObjectSetPhase"} {
					for _, k := range driver.Keys(e.W.Store, kind) {
						ks = append(ks, struct{ kind, ns, name string }{kind, k.Namespace, k.Name})
					}
				}
				if len(ks) > 0 {
					k := ks[d.Obj%len(ks)]
					e.Delete("third-party", false, scen.PKO(k.kind), k.ns, k.name)
					e.Count("c10_phase_objects_deleted_out_of_band")
					res.Fired++
					if d.Quiet {
						settle(e, sc)
					}
				}
				continue
			}
			if strings.HasPrefix(d.Kind, "drift") && d.At == si && len(sc.Managed) > 0 {
				m := sc.Managed[d.Obj%len(sc.Managed)]
				switch d.Kind {
				case "drift-edit":
					e.Mutate("third-party", false, m.GVK, m.NS, m.Name, "drift: content edit", func(u *unstructured.Unstructured) {
						switch m.GVK.Kind {
						case "ConfigMap":
							_ = unstructured.SetNestedField(u.Object, "drifted", "data", "content")
						case "ClusterRole":
							u.Object["rules"] = []any{}
						default:
							_ = unstructured.SetNestedField(u.Object, "drifted", "spec", "content")
						}
					})
				case "drift-delete":
					e.Delete("third-party", false, m.GVK, m.NS, m.Name)
				case "drift-label":
					e.Mutate("third-party", false, m.GVK, m.NS, m.Name, "drift: labels and annotations stripped", func(u *unstructured.Unstructured) {
						u.SetLabels(nil)
						an := u.GetAnnotations()
						delete(an, "package-operator.run/revision")
						u.SetAnnotations(an)
					})
				}
				res.Fired++
				if d.Quiet {
					settle(e, sc)
				}
			}
		}
		if st.Do != nil {
			e.Logf("script: %s", st.Desc)
			st.Do(e)
			continue
		}
		// every stage of the script runs until it settles, so the next user action meets the same situation in every run
		// (a user acting in the middle of a rollout legitimately leads to a different history)
		if ok, who := settle(e, sc); !ok && res.PingPong == "" {
			res.StuckStage = st.Desc + " after step " + sc.Steps[si-1].Desc
			res.PingPong = who
		}
	}
	// disturbances stop; settle
	e.Disarm()
	e.W.Fresh = true
	ok, who := settle(e, sc)
	res.Settled = ok && res.StuckStage == ""
	if !ok {
		res.PingPong = who
	}
	res.Proj = e.Project(false)
	res.Requests = cnt.n
	res.Writes = cnt.writes
	res.TeardownDryRun409 = cnt.teardownDryRun409
	res.DeploymentArchivalFaults = cnt.deploymentArchivalFaults
	// at rest nothing changes any more, not even after a restart
	before := e.W.Store.Seq()
	e.W.Restart()
	round(e, sc)
	round(e, sc)
	res.ExtraSeq = e.W.Store.Seq() - before
	res.Log, res.Trace = e.Log, e.TraceTail(250)
	res.Viol, res.Counts, res.Order = e.Viol, e.Counts, e.WriteOrder()
	res.SetRev = map[string]int64{}
	for _, rq := range e.W.Store.Trace() {
		if strings.HasSuffix(rq.GVK.Kind, "ObjectSet") && rq.Post != nil {
			if rev, ok, _ := unstructured.NestedInt64(rq.Post, "status", "revision"); ok && rev > 0 {
				res.SetRev[rq.Key.Name] = rev
			}
		}
	}
	if len(cnt.panics) > 0 {
		res.PanicInfo = cnt.panics[0]
	}
	return res
}

func runCase(c *vh.Ctx, i int) {
	r := c.Rand("c10", i)
	sc := build(r)
	runSeed := r.Int63()
	ref := execute(rand.New(rand.NewSource(runSeed)), sc, nil)
	c.Eval()
	dump := func(d []disturbance, rr runResult, diff []string) map[string]any {
		return map[string]any{"index": i, "stream": "c10", "family": sc.Family, "disturbances": d, "steps": rr.Log, "trace": rr.Trace, "diff": diff, "reference_steps": ref.Log}
	}
	if !ref.Settled {
		c.Violation("C10:undisturbed-run-does-not-settle:"+sc.Family, "the undisturbed reference run reaches no fixpoint ("+ref.StuckStage+"): "+ref.PingPong, dump(nil, ref, nil))
		return
	}
	if ref.ExtraSeq != 0 {
		c.Violation("C10:writes-at-rest:"+sc.Family, fmt.Sprintf("undisturbed run: %d commits after settling", ref.ExtraSeq), dump(nil, ref, nil))
	}
	c.Count("c10_reference_runs", 1)
	c.Count("c10_family_"+sc.Family, 1)
	c.Distinct(strings.Join(ref.Log, "\n"))
	// injection points: every PKO request of the undisturbed run (thorough) or a sample (quick)
	var plans [][]disturbance
	kinds := []string{"error", "conflict", "lost", "crash"}
	nPoints := ref.Requests
	per := c.N(6, 0)
	if per == 0 || per > nPoints {
		for k := 1; k <= nPoints; k++ {
			for _, kind := range kinds {
				plans = append(plans, []disturbance{{Kind: kind, At: k}})
			}
		}
	} else {
		for k := 0; k < per; k++ {
			// two thirds of the sampled points are writes or the request right after one (crash after the effect)
			at := 1 + r.Intn(nPoints)
			if len(ref.Writes) > 0 && r.Intn(3) != 0 {
				at = ref.Writes[r.Intn(len(ref.Writes))] + r.Intn(2)
			}
			for _, kind := range kinds {
				plans = append(plans, []disturbance{{Kind: kind, At: at}})
			}
		}
	}
	// fault sequences and drift
	for k := 0; k < c.N(4, 60); k++ {
		var p []disturbance
		for n := 2 + r.Intn(3); n > 0; n-- {
			p = append(p, disturbance{Kind: kinds[r.Intn(len(kinds))], At: 1 + r.Intn(nPoints)})
		}
		plans = append(plans, p)
	}
	for k := 0; k < c.N(8, 100); k++ {
		p := []disturbance{{Kind: []string{"drift-edit", "drift-delete", "drift-label", "drift-delete-phase"}[r.Intn(4)], At: 1 + r.Intn(len(sc.Steps)-1), Obj: r.Intn(16), Quiet: r.Intn(2) == 0}}
		if r.Intn(2) == 0 {
			p = append(p, disturbance{Kind: kinds[r.Intn(len(kinds))], At: 1 + r.Intn(nPoints)})
		}
		plans = append(plans, p)
	}
	// a delegated phase's object is deleted out of band and repaired in a quiet period right before each later user action
	for si, st := range sc.Steps {
		if st.Do != nil && si >= 3 {
			for j := 0; j < 2; j++ {
				plans = append(plans, []disturbance{{Kind: "drift-delete-phase", At: si, Obj: j, Quiet: true}})
			}
		}
	}
	vh.Parallel(len(plans), func(pi int) {
		p := plans[pi]
		rr := execute(rand.New(rand.NewSource(runSeed)), sc, p)
		c.Eval()
		c.Count("c10_disturbed_runs", 1)
		for _, d := range p {
			c.Count("c10_disturbance_"+d.Kind, 1)
		}
		c.Count("c10_phase_objects_deleted_out_of_band", rr.Counts["c10_phase_objects_deleted_out_of_band"])
		if rr.PanicInfo != "" {
			c.Violation("C10:panic", rr.PanicInfo, dump(p, rr, nil))
		}
		kindsOf := func() string {
			var s []string
			for _, d := range p {
				s = append(s, d.Kind)
			}
			return strings.Join(s, "+")
		}
		if !rr.Settled {
			c.Violation("C10:no-fixpoint-after-disturbance:"+sc.Family, fmt.Sprintf("after %s the run does not settle within 40 fair rounds (%s): %s", kindsOf(), rr.StuckStage, rr.PingPong), dump(p, rr, nil))
			return
		}
		if rr.ExtraSeq != 0 {
			c.Violation("C10:writes-at-rest:"+sc.Family, fmt.Sprintf("after %s: %d commits by passes after settling", kindsOf(), rr.ExtraSeq), dump(p, rr, nil))
		}
		refProj, runProj := ref.Proj, rr.Proj
		for _, d := range p {
			if strings.HasPrefix(d.Kind, "drift-delete") {
				// an object that was deleted and re-created has lost the plain (non-controller) references of the revisions
				// that owned it earlier; who controls it and everything else must still agree
				refProj, runProj = controllersOnly(refProj), controllersOnly(runProj)
				break
			}
		}
		if diff := scen.Diff(refProj, runProj); len(diff) > 0 && rr.TeardownDryRun409 > 0 {
			// classified: the preflight dry-run of a teardown got 409 Conflict, which preflight.DryRun reports as a violation;
			// teardownPhaseObject treats any violation as 'nothing to clean up' and skips the object for good
			c.Violation("C10:teardown-skips-object-when-preflight-dry-run-gets-409", fmt.Sprintf("after %s (A = undisturbed, B = disturbed):\n    %s", kindsOf(), strings.Join(diff, "\n    ")), dump(p, rr, diff))
			return
		} else if len(diff) > 0 && rr.DeploymentArchivalFaults > 0 && onlySurplusArchivedRevisions(diff) {
			// classified: the archive reconciler prunes history only in a pass that archives something (markObjectSetsForArchival
			// returns early otherwise); a pass interrupted between the archive update and the pruning is never made up for
			c.Violation("C10:history-pruning-not-resumed-after-interrupted-archival", fmt.Sprintf("after %s (A = undisturbed, B = disturbed):\n    %s", kindsOf(), strings.Join(diff, "\n    ")), dump(p, rr, diff))
			return
		} else if len(diff) > 0 {
			c.Violation("C10:end-state-differs-from-undisturbed-run:"+sc.Family+":"+firstKey(diff), fmt.Sprintf("after %s (A = undisturbed, B = disturbed):\n    %s", kindsOf(), strings.Join(diff, "\n    ")), dump(p, rr, diff))
			return
		}
		c.Count("c10_end_states_equal", 1)
	})
}

// onlySurplusArchivedRevisions: every difference is an archived revision that only the disturbed run still has.
func onlySurplusArchivedRevisions(diff []string) bool {
	for _, d := range diff {
		if !strings.Contains(strings.SplitN(d, ":", 2)[0], "ObjectSet ") || !strings.Contains(d, "A: <nil>") || !strings.Contains(d, "B: map[archived:true") {
			return false
		}
	}
	return len(diff) > 0
}

// controllersOnly drops non-controller owner references from a projection.
func controllersOnly(p scen.Projection) scen.Projection {
	out := scen.Projection{}
	for k, v := range p {
		if m, ok := v.(map[string]any); ok {
			if owners, ok := m["owners"].([]string); ok {
				cp := map[string]any{}
				for kk, vv := range m {
					cp[kk] = vv
				}
				var keep []string
				for _, o := range owners {
					if strings.HasSuffix(o, "controller=true") {
						keep = append(keep, o)
					}
				}
				cp["owners"] = keep
				v = cp
			}
		}
		out[k] = v
	}
	return out
}

// firstKey: kind of the first differing object (keeps signatures stable across seeds).
func firstKey(diff []string) string {
	f := strings.Fields(diff[0])
	if len(f) > 0 {
		return f[0]
	}
	return "?"
}

func Run(c *vh.Ctx) {
	n := c.N(24, 16)
	vh.Parallel(n, func(i int) {
		if c.Skip("c10", i) {
			return
		}
		runCase(c, i)
	})
	for _, g := range []chkfam.Gate{{"c10_reference_runs", int64(n * 9 / 10)}, {"c10_end_states_equal", 300}, {"c10_disturbance_crash", 100}, {"c10_disturbance_lost", 100}, {"c10_disturbance_error", 100},
		{"c10_disturbance_drift-delete", 15}, {"c10_disturbance_drift-edit", 15}, {"c10_family_deployment", 1}, {"c10_family_objectsets", 1}, {"c10_family_clusterobjectsets", 1}} {
		c.GateCount(g.Counter, g.Min)
	}
	c.Finish("exploration",
		"case = scripted scenario (ObjectDeployment rollouts over 2-3 templates with revision history limit, or hand-made (Cluster)ObjectSet revision chains with pause / archive / delete; local and delegated phases, every collision protection, workloads that do or never become ready) executed undisturbed and then once per disturbance plan: a fault at one API call of the PKO passes (every call x {500, 409, effect with lost response, crash + restart with all in-memory state lost} in thorough, a sample in quick), sequences of 2-4 faults, third-party drift (content edit, deletion, stripped labels and revision annotation) at a script step. Oracles: after disturbances stop the run settles within 40 fair rounds (otherwise the writers of the last two rounds are reported), passes after settling - also after another restart - commit nothing, and the projected end state (objects, owners, revisions, lifecycle, condition status/reason, controllerOf) equals the undisturbed run's. non-trivial/distinct = distinct reference runs",
		append(append([]string{}, chkfam.CommonAssumptions...), "caches are current (no informer lag) in this check; a crash loses the dynamic cache and all controller state", "drift never changes ownership (that is C01/C02 territory)"))
}
