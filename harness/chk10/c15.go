package chk10

import (
	"fmt"
	"math/rand"
	"reflect"
	"regexp"
	"sort"
	"strings"

	"package-operator.run/internal/verifharness/chkfam"
	"package-operator.run/internal/verifharness/monitors"
	"package-operator.run/internal/verifharness/scen"
	"package-operator.run/internal/verifharness/vh"
)

// C15: delegating a phase to an ObjectSetPhase preserves behaviour. The scripted scenarios of this package are executed
// twice from the same PRNG stream - all phases in-process, and with a drawn subset of phases delegated to the built-in
// class - and compared; the delegated twin additionally runs under the C02-C06, C09 and C15 monitors.

var phaseOwnerRe = regexp.MustCompile(`(Cluster)?ObjectSetPhase/([a-z0-9-]+)-(one|two)\b`)

// undelegate maps a projection of the delegated twin onto the vocabulary of the local twin: phase objects disappear,
// whatever they own is attributed to their ObjectSet.
func undelegate(p scen.Projection) scen.Projection {
	out := scen.Projection{}
	for k, v := range p {
		if strings.Contains(k, "ObjectSetPhase ") {
			continue
		}
		if m, ok := v.(map[string]any); ok {
			if owners, ok := m["owners"].([]string); ok {
				cp := map[string]any{}
				for kk, vv := range m {
					cp[kk] = vv
				}
				no := make([]string, len(owners))
				for i, o := range owners {
					no[i] = phaseOwnerRe.ReplaceAllString(o, "${1}ObjectSet/$2")
				}
				sort.Strings(no)
				cp["owners"] = no
				v = cp
			}
		}
		out[k] = v
	}
	return out
}

var setNameRe = regexp.MustCompile(`app-[a-f0-9]{6,10}\b`)

// byRevision renames the ObjectSets an ObjectDeployment generated (their names hash the template, which contains the
// class) to app@<revision>, in keys and in owner lists.
func renamer(setRev map[string]int64) func(string) string {
	return func(s string) string {
		return setNameRe.ReplaceAllStringFunc(s, func(n string) string {
			if r, ok := setRev[n]; ok {
				return fmt.Sprintf("app@%d", r)
			}
			return n
		})
	}
}

func byRevision(p scen.Projection, setRev map[string]int64) scen.Projection {
	ren := renamer(setRev)
	out := scen.Projection{}
	for k, v := range p {
		if m, ok := v.(map[string]any); ok {
			if owners, ok := m["owners"].([]string); ok {
				cp := map[string]any{}
				for kk, vv := range m {
					cp[kk] = vv
				}
				no := make([]string, len(owners))
				for i, o := range owners {
					no[i] = ren(o)
				}
				sort.Strings(no)
				cp["owners"] = no
				v = cp
			}
		}
		out[ren(k)] = v
	}
	return out
}

func renameOrder(o map[string][]string, setRev map[string]int64) map[string][]string {
	ren := renamer(setRev)
	out := map[string][]string{}
	for k, l := range o {
		nl := make([]string, len(l))
		for i, s := range l {
			nl[i] = ren(s)
		}
		out[k] = nl
	}
	return out
}

var phaseActorRe = regexp.MustCompile(`by (Cluster)?ObjectSetPhase ([a-z0-9-]+)-(one|two)$`)

func undelegateOrder(o map[string][]string) map[string][]string {
	out := map[string][]string{}
	for k, l := range o {
		if strings.Contains(k, "ObjectSetPhase ") {
			continue
		}
		nl := make([]string, len(l))
		for i, s := range l {
			nl[i] = phaseActorRe.ReplaceAllString(s, "by ${1}ObjectSet $2")
		}
		out[k] = nl
	}
	return out
}

// collapse: consecutive identical effective writes (e.g. two patches by the same revision) count once; what matters is
// which revision wrote an object in which order with which verb.
func collapse(l []string) []string {
	var out []string
	for _, s := range l {
		if len(out) == 0 || out[len(out)-1] != s {
			out = append(out, s)
		}
	}
	return out
}

func runC15Case(c *vh.Ctx, i int) {
	r := c.Rand("c15", i)
	bseed, runSeed := r.Int63(), r.Int63()
	strat := r.Intn(3) // 0: drawn subset, 1: everything delegated, 2: only one side of a handover delegated
	local := buildWith(rand.New(rand.NewSource(bseed)), buildOpts{PhaseGames: true, Deleg: func(int, string, bool) bool { return false }})
	deleg := buildWith(rand.New(rand.NewSource(bseed)), buildOpts{PhaseGames: true, Deleg: func(rev int, phase string, drawn bool) bool {
		switch strat {
		case 1:
			return true
		case 2:
			return rev%2 == 1 // handovers between delegated and local revisions, both directions over a chain
		}
		return drawn || (rev == 1 && phase == "one")
	}})
	a := execute(rand.New(rand.NewSource(runSeed)), local, nil)
	b := execute(rand.New(rand.NewSource(runSeed)), deleg, nil, &monitors.C02{}, &monitors.C03{}, &monitors.C04{}, &monitors.C05{}, &monitors.C06{}, &monitors.C09{}, &monitors.C15{})
	c.Eval()
	dump := func(diff []string) map[string]any {
		return map[string]any{"index": i, "stream": "c15", "family": local.Family, "strategy": strat, "diff": diff, "steps": b.Log, "trace": b.Trace, "local_steps": a.Log}
	}
	c.Count("c15_pairs", 1)
	c.Count("c15_family_"+local.Family, 1)
	for k, v := range b.Counts {
		c.Count(k, v)
	}
	for _, v := range b.Viol {
		sig := v.Sig
		if !strings.HasPrefix(sig, "C15:") {
			sig = "C15:delegated-twin:" + sig
		}
		c.Violation(sig, v.Msg, dump(nil))
	}
	if a.PanicInfo != "" || b.PanicInfo != "" {
		c.Violation("C15:panic", a.PanicInfo+b.PanicInfo, dump(nil))
	}
	if !a.Settled || !b.Settled {
		if a.Settled != b.Settled {
			c.Violation("C15:only-one-twin-settles", fmt.Sprintf("local settled=%v (%s %s), delegated settled=%v (%s %s)", a.Settled, a.StuckStage, a.PingPong, b.Settled, b.StuckStage, b.PingPong), dump(nil))
		}
		c.Count("c15_pairs_not_settled", 1)
		return
	}
	if diff := scen.Diff(byRevision(a.Proj, a.SetRev), byRevision(undelegate(b.Proj), b.SetRev)); len(diff) > 0 {
		c.Violation("C15:delegated-run-differs-from-local:end-state:"+firstKey(diff), "A = all phases in-process, B = delegated (phase objects mapped to their ObjectSet):\n    "+strings.Join(diff, "\n    "), dump(diff))
		return
	}
	c.Count("c15_end_states_equal", 1)
	if b.Counts["c15_out_of_band_phase_object_deletions"] > 0 {
		// deleting a phase object out of band tears its objects down and rebuilds them: no counterpart in the local twin
		c.Count("c15_write_order_not_comparable", 1)
		c.Distinct(strings.Join(b.Log, "\n"))
		return
	}
	ob := renameOrder(undelegateOrder(b.Order), b.SetRev)
	aOrder := renameOrder(a.Order, a.SetRev)
	var od []string
	for k, l := range aOrder {
		if !reflect.DeepEqual(collapse(l), collapse(ob[k])) {
			od = append(od, fmt.Sprintf("%s:\n      A: %v\n      B: %v", k, collapse(l), collapse(ob[k])))
		}
	}
	for k := range ob {
		if _, ok := aOrder[k]; !ok {
			od = append(od, fmt.Sprintf("%s: written in the delegated run only: %v", k, ob[k]))
		}
	}
	sort.Strings(od)
	if len(od) > 0 {
		c.Violation("C15:delegated-run-differs-from-local:write-order", strings.Join(od, "\n    "), dump(od))
		return
	}
	c.Count("c15_write_orders_equal", 1)
	c.Distinct(strings.Join(b.Log, "\n"))
}

func RunC15(c *vh.Ctx) {
	n := c.N(150, 3000)
	vh.Parallel(n, func(i int) {
		if c.Skip("c15", i) {
			return
		}
		runC15Case(c, i)
	})
	for _, g := range []chkfam.Gate{{"c15_pairs", int64(n * 9 / 10)}, {"c15_end_states_equal", int64(n / 2)}, {"c15_phase_object_writes", 100}, {"c15_phase_object_deletes", 20}, {"c15_releases_checked", 20},
		{"c15_available_relays_checked", 100}} {
		c.GateCount(g.Counter, g.Min)
	}
	c.Finish("exploration",
		"pair = one scripted scenario (ObjectDeployment rollouts, hand-made (Cluster)ObjectSet chains with pause flips, archive, delete, out-of-band deletion of phase objects; stages settle between user actions) executed twice from one PRNG stream: every phase in-process, and with phases delegated to the built-in class (a drawn subset, all phases, or every other revision so that handovers cross the local/delegated boundary in both directions). Oracles: projected end states equal after mapping phase objects to their ObjectSet; per-object order of effective writes equal (who wrote with which verb, repeats collapsed); the delegated twin runs under the C02-C06 and C09 monitors and the C15 monitor: every write of the ObjectSet controller to a phase object leaves it carrying exactly the phase's objects, probes, revision, previous list and paused flag under the ObjectSet's control; phase objects are deleted by PKO during teardown only; Available=True is reported only on a phase object state whose Available condition refers to its current generation; finalizer removal / Archived=True happen only when no phase object of the set exists. non-trivial/distinct = distinct delegated runs with equal outcome",
		append(append([]string{}, chkfam.CommonAssumptions...), "native owner strategy and same-cluster class only in the differential (the hosted-cluster class and annotation strategy are exercised by the C02-C06 family runs)"))
}
