// Package chk11 decides property C11 (no write before preflight passes, namespace confinement).
package chk11

import (
	"fmt"
	"math/rand"
	"strings"

	apierrors "k8s.io/apimachinery/pkg/api/errors"
	metav1 "k8s.io/apimachinery/pkg/apis/meta/v1"
	"k8s.io/apimachinery/pkg/apis/meta/v1/unstructured"
	"k8s.io/apimachinery/pkg/runtime/schema"
	"k8s.io/apimachinery/pkg/types"
	"sigs.k8s.io/controller-runtime/pkg/client"

	corev1alpha1 "package-operator.run/apis/core/v1alpha1"
	"package-operator.run/internal/verifharness/chkfam"
	"package-operator.run/internal/verifharness/driver"
	"package-operator.run/internal/verifharness/monitors"
	"package-operator.run/internal/verifharness/pkomodel"
	"package-operator.run/internal/verifharness/scen"
	"package-operator.run/internal/verifharness/simkube"
	"package-operator.run/internal/verifharness/vh"
)

var classes = []string{"unknown-api", "preset-ownerreferences", "foreign-namespace", "cluster-kind-ns-unset", "cluster-kind-ns-own", "cluster-kind-ns-other", "cluster-cr", "rejected", "duplicate", "none", "none"}

func violating(r *rand.Rand, class string, n int, cluster bool) (*unstructured.Unstructured, string) {
	name := fmt.Sprintf("bad-%d", n)
	ownNS := "ns"
	switch class {
	case "unknown-api":
		return scen.Object(scen.GVKUnknown, "", name, "x"), ""
	case "preset-ownerreferences":
		u := scen.Object(scen.GVKConfigMap, pick(r, "", "ns"), name, "x")
		if cluster {
			u.SetNamespace("ns")
		}
		u.SetOwnerReferences([]metav1.OwnerReference{{APIVersion: "v1", Kind: "ConfigMap", Name: "someone", UID: "preset-uid"}})
		return u, ""
	case "foreign-namespace":
		return scen.Object(scen.GVKConfigMap, "other", name, "x"), ""
	case "cluster-kind-ns-unset":
		return scen.Object(scen.GVKClusterRole, "", name, "secrets"), ""
	case "cluster-kind-ns-own":
		return scen.Object(scen.GVKClusterRole, ownNS, name, "secrets"), ""
	case "cluster-kind-ns-other":
		return scen.Object(scen.GVKClusterRole, "other", name, "secrets"), ""
	case "cluster-cr":
		return scen.Object(scen.GVKClusterWidget, pick(r, "", ownNS), name, "x"), ""
	case "rejected":
		u := scen.Object(scen.GVKConfigMap, "", name, "x")
		if cluster {
			u.SetNamespace("ns")
		}
		u.SetAnnotations(map[string]string{simkube.RejectAnnotation: "true"})
		return u, ""
	}
	return nil, ""
}

func pick[T any](r *rand.Rand, xs ...T) T { return xs[r.Intn(len(xs))] }

func runCase(c *vh.Ctx, i int) {
	r := c.Rand("c11", i)
	mon := &monitors.C11{}
	e, err := scen.NewEnv(r, driver.Options{}, mon)
	if err != nil {
		panic(err)
	}
	ctx, cl := e.W.Actor("setup")
	driver.MustCreate(ctx, cl, driver.Namespace("ns"), driver.Namespace("other"))
	flavor := r.Intn(4)
	cluster := flavor == 1 || flavor == 3
	ownerNS := "ns"
	if cluster {
		ownerNS = ""
	}
	nPhases := 1 + r.Intn(3)
	if flavor >= 2 {
		nPhases = 1
	}
	phases := make([]corev1alpha1.ObjectSetTemplatePhase, nPhases)
	seq := 0
	var all []*unstructured.Unstructured
	for p := range phases {
		phases[p].Name = fmt.Sprintf("phase-%d", p+1)
		for k := 0; k < 1+r.Intn(3); k++ {
			seq++
			gvk := pick(r, scen.GVKConfigMap, scen.GVKConfigMap, scen.GVKDeployment)
			ns := pick(r, "", "ns")
			if cluster {
				ns = "ns"
			}
			u := scen.Object(gvk, ns, fmt.Sprintf("ok-%d", seq), "v1")
			all = append(all, u)
			phases[p].Objects = append(phases[p].Objects, scen.ObjectSetObject(u, pick(r, "", "None")))
		}
	}
	// inject violating objects
	var injected []string
	for n := 0; n < 1+r.Intn(2); n++ {
		class := classes[r.Intn(len(classes))]
		if class == "none" {
			continue
		}
		p := r.Intn(nPhases)
		pos := r.Intn(len(phases[p].Objects) + 1)
		var u *unstructured.Unstructured
		if class == "duplicate" {
			if flavor >= 2 {
				continue
			}
			u = pick(r, all...).DeepCopy()
		} else {
			u, _ = violating(r, class, n, cluster)
		}
		obj := scen.ObjectSetObject(u, pick(r, "", "None"))
		objs := phases[p].Objects
		phases[p].Objects = append(objs[:pos:pos], append([]corev1alpha1.ObjectSetObject{obj}, objs[pos:]...)...)
		where := "middle"
		if pos == 0 {
			where = "first"
		} else if pos == len(objs) {
			where = "last"
		}
		injected = append(injected, fmt.Sprintf("%s@phase%d/%s", class, p+1, where))
		c.Count("injected_"+class+"_"+where, 1)
		// sometimes the same object already exists, owned by nobody
		if r.Intn(3) == 0 && class != "unknown-api" && class != "duplicate" && class != "rejected" {
			pre := u.DeepCopy()
			pre.SetOwnerReferences(nil)
			if pre.GetNamespace() == "" && (pre.GetKind() == "ConfigMap" || pre.GetKind() == "Deployment") {
				pre.SetNamespace("ns")
			}
			_ = e.Create("third-party", false, pre)
		}
	}
	e.Logf("flavor=%d injected=%v", flavor, injected)
	var ctrlName string
	key := types.NamespacedName{Namespace: ownerNS, Name: "o"}
	var ownerKind string
	switch flavor {
	case 0, 1:
		if err := e.Create("user", false, scen.NewObjectSet(ownerNS, "o", phases, nil)); err != nil {
			e.Logf("owner rejected by the API: %v", err)
			c.Count("owner_rejected_by_api", 1)
			return
		}
		ctrlName, ownerKind = driver.CtrlObjectSet, "ObjectSet"
		if cluster {
			ctrlName, ownerKind = driver.CtrlClusterObjectSet, "ClusterObjectSet"
		}
	case 2:
		ph := &corev1alpha1.ObjectSetPhase{
			ObjectMeta: metav1.ObjectMeta{Name: "o", Namespace: "ns", Labels: map[string]string{pkomodel.PhaseClassLabel: "default"}},
			Spec:       corev1alpha1.ObjectSetPhaseSpec{Revision: 1, Objects: phases[0].Objects},
		}
		if err := e.Create("user", false, ph); err != nil {
			c.Count("owner_rejected_by_api", 1)
			return
		}
		ctrlName, ownerKind = driver.CtrlObjectSetPhase, "ObjectSetPhase"
	default:
		ph := &corev1alpha1.ClusterObjectSetPhase{
			ObjectMeta: metav1.ObjectMeta{Name: "o", Labels: map[string]string{pkomodel.PhaseClassLabel: "default"}},
			Spec:       corev1alpha1.ClusterObjectSetPhaseSpec{Revision: 1, Objects: phases[0].Objects},
		}
		if err := e.Create("user", false, ph); err != nil {
			c.Count("owner_rejected_by_api", 1)
			return
		}
		ctrlName, ownerKind = driver.CtrlClusterObjectSetPhase, "ClusterObjectSetPhase"
	}
	for k := 0; k < 3; k++ {
		if r.Intn(4) == 0 {
			// the API server answers one upcoming dry run with a transient error
			skip := r.Intn(3)
			errs := []error{apierrors.NewInternalError(fmt.Errorf("webhook down")), apierrors.NewServerTimeout(schema.GroupResource{Resource: "configmaps"}, "patch", 1),
				apierrors.NewTooManyRequestsError("slow down"), apierrors.NewServiceUnavailable("unavailable"), apierrors.NewTimeoutError("timeout", 1)}
			ferr := errs[r.Intn(len(errs))]
			e.Arm(&scen.Armed{Desc: "transient API error at an upcoming dry run: " + ferr.Error(), Fault: simkube.FaultErrorBefore, Err: ferr,
				Match: func(req *simkube.Request) bool {
					if !req.DryRun {
						return false
					}
					if skip > 0 {
						skip--
						return false
					}
					return true
				}})
		}
		e.Reconcile(ctrlName, key)
		if r.Intn(3) == 0 {
			for _, u := range all {
				if u.GetKind() == "Deployment" {
					e.WorkloadStatus(false, scen.GVKDeployment, "ns", u.GetName(), "ready")
				}
			}
		}
	}
	// teardown, sometimes after an API disappeared or an object became rejected
	switch r.Intn(4) {
	case 0:
		e.W.Store.UnregisterKind(scen.GVKDeployment.GroupKind())
		e.Logf("API apps/Deployment removed")
	case 1:
		if len(all) > 0 {
			u := pick(r, all...)
			e.Mutate("third-party", false, u.GroupVersionKind(), "ns", u.GetName(), "mark rejected", func(x *unstructured.Unstructured) {
				a := x.GetAnnotations()
				if a == nil {
					a = map[string]string{}
				}
				a[simkube.RejectAnnotation] = "true"
				x.SetAnnotations(a)
			})
		}
	}
	if r.Intn(2) == 0 {
		e.Delete("user", false, scen.PKO(ownerKind), ownerNS, "o")
	} else if flavor < 2 {
		e.Mutate("user", false, scen.PKO(ownerKind), ownerNS, "o", "archive", func(x *unstructured.Unstructured) {
			_ = unstructured.SetNestedField(x.Object, "Archived", "spec", "lifecycleState")
		})
	}
	for k := 0; k < 4; k++ {
		e.Reconcile(ctrlName, key)
		e.GC()
	}
	c.Eval()
	for _, v := range e.Viol {
		c.Violation(v.Sig, v.Msg, map[string]any{"index": i, "stream": "c11", "steps": e.Log, "trace": e.TraceTail(600)})
	}
	for k, v := range e.Counts {
		c.Count(k, v)
	}
	if len(injected) > 0 {
		c.Distinct(strings.Join(e.Log, "\n"))
	}
	if i < 2 {
		c.Sample(map[string]any{"steps": e.Log})
	}
	_ = client.IgnoreNotFound
}

func Run(c *vh.Ctx) {
	n := c.N(500, 10000)
	vh.Parallel(n, func(i int) {
		if c.Skip("c11", i) {
			return
		}
		runCase(c, i)
	})
	for _, g := range []string{"c11_violating_object_unknown-api", "c11_violating_object_preset-ownerreferences", "c11_violating_object_foreign-namespace", "c11_violating_object_cluster-scoped-kind", "c11_violating_object_rejected-by-dry-run", "c11_duplicate_cases"} {
		c.GateCount(g, 10)
	}
	c.GateCount("c11_preflight_error_expected", 100)
	c.GateCount("c11_dry_run_errors", 20)
	c.GateCount("c11_writes_by_namespaced_owners", 300)
	c.Finish("exploration",
		"case = owner (ObjectSet, ClusterObjectSet, same-cluster ObjectSetPhase, ClusterObjectSetPhase) with 1-3 phases of valid objects into which violating objects (unknown API, preset ownerReferences, foreign namespace, cluster-scoped kinds with namespace unset / own / other, rejected by dry run, duplicate) are injected at first / middle / last position, optionally pre-existing in the cluster; three rollout passes, then teardown (delete or archive, optionally after an API disappeared or an object became rejected); non-trivial = at least one violating object injected; distinct = distinct step logs",
		append(append([]string{}, chkfam.CommonAssumptions...),
			"request scope is taken from the REST mapping, not from the body: the namespace of a cluster-scoped body is cleared by the (simulated) API server, as EnsureObjectNamespaceMatchesRequestNamespace does",
			"reference preflight predicate (monitors/c11.go) is evaluated on the object as listed in the spec"))
}
