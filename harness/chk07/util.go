package chk07

import "k8s.io/apimachinery/pkg/apis/meta/v1/unstructured"

type scenU = unstructured.Unstructured

func setPaused(u *unstructured.Unstructured, v bool) {
	_ = unstructured.SetNestedField(u.Object, v, "spec", "paused")
}
