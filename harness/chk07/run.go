// Package chk07 decides property C07 (one ObjectSet per template, unique increasing revisions).
package chk07

import (
	"fmt"
	"math/rand"
	"reflect"
	"strings"

	"package-operator.run/internal/verifharness/chkfam"
	"package-operator.run/internal/verifharness/driver"
	"package-operator.run/internal/verifharness/monitors"
	"package-operator.run/internal/verifharness/pkomodel"
	"package-operator.run/internal/verifharness/scen"
	"package-operator.run/internal/verifharness/vh"
)

func Run(c *vh.Ctx) {
	chkfam.RunDeployStream(c, chkfam.DeployConfig{
		Stream: "c07", NQuick: 200, NThorough: 4000,
		Profile: func(r *rand.Rand) scen.DeployProfile {
			return scen.DeployProfile{
				Steps: 60 + r.Intn(80), Cluster: r.Intn(4) == 0, Limit: []int{-1, 0, 1, 2, 10}[r.Intn(5)], Templates: 2 + r.Intn(3),
				Weights: scen.DeployWeightsWith(map[string]int{"edit-template": 8, "noop-edit": 3, "fault": 5, "plant-collision": 2, "reconcile": 50}),
			}
		},
		Options: func(p scen.DeployProfile, r *rand.Rand) driver.Options {
			o := driver.Options{}
			if r.Intn(2) == 0 {
				// the manager's cache has not yet seen objects created within the last few commits
				lr := rand.New(rand.NewSource(r.Int63()))
				o.CachedHideYoung = func() int64 { return lr.Int63n(12) }
			}
			return o
		},
		Monitors:          func() []scen.Monitor { return []scen.Monitor{monitors.NewC07()} },
		NonTrivialCounter: "c07_objectset_creates",
		After: func(c *vh.Ctx, e *scen.Env, g *scen.DeployRand) {
			// bounded progress: after the last edit the newest ObjectSet equals the template
			d := pkomodel.DeploymentFrom(e.W.Store.Peek(scen.PKO(g.DepKind).GroupKind(), g.DepNS, g.Name))
			if d == nil {
				return
			}
			if d.Paused {
				e.Mutate("user", false, scen.PKO(g.DepKind), g.DepNS, g.Name, "spec.paused=false (settling)", func(u *scenU) { setPaused(u, false) })
			}
			rounds, ok := e.Quiesce(30)
			e.Logf("settled after %d rounds: %v", rounds, ok)
			if !ok {
				e.Report("C07:no-convergence", fmt.Sprintf("deployment still changing after %d fair rounds", rounds))
				return
			}
			d = pkomodel.DeploymentFrom(e.W.Store.Peek(scen.PKO(g.DepKind).GroupKind(), g.DepNS, g.Name))
			var newest *pkomodel.Owner
			for _, k := range driver.Keys(e.W.Store, g.SetKind) {
				o := pkomodel.OwnerFrom(e.W.Store.Peek(scen.PKO(g.SetKind).GroupKind(), k.Namespace, k.Name))
				if o == nil || o.Labels["app.kubernetes.io/instance"] != g.Name {
					continue
				}
				if newest == nil || o.Revision > newest.Revision {
					newest = o
				}
			}
			ties := 0
			for _, k := range driver.Keys(e.W.Store, g.SetKind) {
				o := pkomodel.OwnerFrom(e.W.Store.Peek(scen.PKO(g.SetKind).GroupKind(), k.Namespace, k.Name))
				if o != nil && newest != nil && o.Labels["app.kubernetes.io/instance"] == g.Name && o.Revision == newest.Revision {
					ties++
				}
			}
			switch {
			case ties > 1:
				// two revisions carry the same number (reported by the revision monitor where it happens): "newest" is undefined
				e.Count("c07_final_oracle_skipped_duplicate_revision_numbers")
			case newest == nil:
				e.Report("C07:no-objectset-for-template", "after settling the deployment has no ObjectSet")
			case !reflect.DeepEqual(pkomodel.TemplateSpecOf(newest.Raw), pkomodel.Canon(d.Template.Spec)):
				var all []string
				for _, k := range driver.Keys(e.W.Store, g.SetKind) {
					o := pkomodel.OwnerFrom(e.W.Store.Peek(scen.PKO(g.SetKind).GroupKind(), k.Namespace, k.Name))
					if o != nil {
						all = append(all, fmt.Sprintf("%s rev=%d hash=%s archived=%v paused=%v labels=%v conds=%v", o.Name, o.Revision, o.Annotations["package-operator.run/hash"], o.Archived, o.Paused, o.Labels, o.Conditions))
					}
				}
				e.Report("C07:newest-objectset-differs-from-template", fmt.Sprintf("after settling the newest ObjectSet %s (revision %d) does not equal the template; deployment hash=%s collisionCount=%v; sets: %s", newest.Name, newest.Revision, d.TemplateHash, d.CollisionCount, strings.Join(all, " || ")))
			case newest.Archived:
				e.Report("C07:newest-objectset-archived", fmt.Sprintf("after settling the newest ObjectSet %s is archived", newest.Name))
			default:
				e.Count("c07_settled_newest_matches_template")
			}
			if d.CollisionCount != nil && *d.CollisionCount > 0 {
				e.Count("c07_runs_with_collision_bump")
			}
		},
	})
	for _, g := range []chkfam.Gate{{"c07_objectset_creates", 300}, {"c07_revisions_assigned", 300}, {"c07_template_epochs", 400}, {"c07_settled_newest_matches_template", 100}, {"c07_runs_with_collision_bump", 3}} {
		c.GateCount(g.Counter, g.Min)
	}
	c.Finish("exploration",
		"run = ObjectDeployment with 2-4 template variants edited in random order (reverts A->B->A, re-submits, label touches) while ObjectDeployment, ObjectSet and phase controllers reconcile in PRNG order with API errors, lost responses, crashes and restarts around the ObjectSet create and the status writes, a manager cache that has not yet seen recent creates, planted name collisions and direct pauses; every ObjectSet create and every revision assignment is checked online, and after the last edit the run must settle within 30 fair rounds with the newest ObjectSet equal to the template; non-trivial = at least one ObjectSet was created; distinct = distinct step logs",
		append(append([]string{}, chkfam.CommonAssumptions...), "cache staleness is limited to the create-not-yet-visible window: objects created within the last few requests are hidden from the manager's cached client (0-11 requests), everything else is served fresh"))
}
