package chk08

import (
	"fmt"
	"math/rand"
	"strings"

	metav1 "k8s.io/apimachinery/pkg/apis/meta/v1"
	"k8s.io/apimachinery/pkg/apis/meta/v1/unstructured"
	"k8s.io/apimachinery/pkg/types"

	corev1alpha1 "package-operator.run/apis/core/v1alpha1"
	"package-operator.run/internal/verifharness/driver"
	"package-operator.run/internal/verifharness/monitors"
	"package-operator.run/internal/verifharness/pkomodel"
	"package-operator.run/internal/verifharness/scen"
	"package-operator.run/internal/verifharness/vh"
)

// rev describes the state a revision is put into before the deployment controller looks at the chain.
type rev struct {
	Available    bool   `json:"available"`
	StatusPaused bool   `json:"statusPaused"`
	State        string `json:"state"`        // Active, Paused, Archived
	Objects      int    `json:"objects"`      // bit set over cm-x, cm-y, cm-z listed in the revision
	ControllerOf string `json:"controllerOf"` // nil, empty, all (everything it lists), first (only the first listed object)
}

type row struct {
	Revs  []rev `json:"revisions"` // oldest first; the last one is the newest
	Limit int   `json:"limit"`
}

var objNames = []string{"cm-x", "cm-y", "cm-z"}

func genRow(r *rand.Rand) row {
	n := 2 + r.Intn(3)
	rw := row{Limit: []int{0, 1, 2, 10}[r.Intn(4)]}
	for i := 0; i < n; i++ {
		rv := rev{
			Available: r.Intn(2) == 0, StatusPaused: r.Intn(2) == 0, State: []string{"Active", "Active", "Paused", "Archived"}[r.Intn(4)],
			Objects: 1 + r.Intn(7), ControllerOf: []string{"nil", "empty", "all", "first"}[r.Intn(4)],
		}
		if i == n-1 {
			rv.State = "Active" // the newest revision is what the deployment just created
			rv.StatusPaused = false
		}
		if rv.State == "Archived" {
			rv.Available, rv.ControllerOf = false, "empty"
		}
		if rv.Available {
			// only consistent states: an Available revision controls everything it lists and says so
			rv.ControllerOf = "all"
		}
		rw.Revs = append(rw.Revs, rv)
	}
	return rw
}

func phasesFor(bits int, content string) []corev1alpha1.ObjectSetTemplatePhase {
	var objs []corev1alpha1.ObjectSetObject
	for i, n := range objNames {
		if bits&(1<<i) != 0 {
			objs = append(objs, scen.ObjectSetObject(scen.Object(scen.GVKConfigMap, "ns", n, content), ""))
		}
	}
	return []corev1alpha1.ObjectSetTemplatePhase{{Name: "main", Objects: objs}}
}

func runRow(c *vh.Ctx, i int, rw row) {
	e, err := scen.NewEnv(nil, driver.Options{}, &monitors.C08{})
	if err != nil {
		panic(err)
	}
	ctx, cl := e.W.Actor("setup")
	driver.MustCreate(ctx, cl, driver.Namespace("ns"))
	n := len(rw.Revs)
	lbl := map[string]string{"app.kubernetes.io/instance": "app"}
	limit := int32(rw.Limit)
	dep := &corev1alpha1.ObjectDeployment{ObjectMeta: metav1.ObjectMeta{Name: "app", Namespace: "ns"}, Spec: corev1alpha1.ObjectDeploymentSpec{
		RevisionHistoryLimit: &limit, Selector: metav1.LabelSelector{MatchLabels: lbl},
		Template: corev1alpha1.ObjectSetTemplate{Metadata: metav1.ObjectMeta{Labels: lbl}, Spec: corev1alpha1.ObjectSetTemplateSpec{Phases: phasesFor(rw.Revs[n-1].Objects, fmt.Sprintf("rev-%d", n))}},
	}}
	if err := e.Create("user", false, dep); err != nil {
		panic(err)
	}
	depKey := types.NamespacedName{Namespace: "ns", Name: "app"}
	// the controller creates the newest ObjectSet itself (name and hash annotation are its own)
	e.Reconcile(driver.CtrlObjectDeployment, depKey)
	var newestName string
	for _, k := range driver.Keys(e.W.Store, "ObjectSet") {
		newestName = k.Name
	}
	if newestName == "" {
		c.Count("table_rows_without_newest", 1)
		return
	}
	d := pkomodel.DeploymentFrom(e.W.Store.Peek(scen.PKO("ObjectDeployment").GroupKind(), "ns", "app"))
	names := make([]string, n)
	names[n-1] = newestName
	t := true
	for k := 0; k < n-1; k++ {
		names[k] = fmt.Sprintf("app-old-%d", k+1)
		os := scen.NewObjectSet("ns", names[k], phasesFor(rw.Revs[k].Objects, fmt.Sprintf("rev-%d", k+1)), nil, names[:k]...)
		os.SetLabels(map[string]string{"app.kubernetes.io/instance": "app", "package-operator.run/object-deployment": "app"})
		os.SetAnnotations(map[string]string{"package-operator.run/hash": fmt.Sprintf("old-hash-%d", k+1)})
		os.SetOwnerReferences([]metav1.OwnerReference{{APIVersion: corev1alpha1.GroupVersion.String(), Kind: "ObjectDeployment", Name: "app", UID: types.UID(d.UID), Controller: &t}})
		if err := e.Create("setup", false, os); err != nil {
			panic(err)
		}
	}
	// the managed objects: each is controlled by the newest revision that claims it in its controllerOf, else by the oldest lister
	for oi, on := range objNames {
		owner := -1
		for k := 0; k < n; k++ {
			rv := rw.Revs[k]
			if rv.Objects&(1<<oi) == 0 || rv.State == "Archived" {
				continue
			}
			claims := rv.ControllerOf == "all" || (rv.ControllerOf == "first" && firstBit(rv.Objects) == oi)
			if claims && (rv.Available || owner < 0 || !rw.Revs[owner].Available) {
				owner = k
			} else if owner < 0 {
				owner = k // controlled although the status does not say so (nil / empty / incomplete list)
			}
		}
		if owner < 0 {
			continue
		}
		u := scen.Object(scen.GVKConfigMap, "ns", on, fmt.Sprintf("rev-%d", owner+1))
		u.SetLabels(map[string]string{pkomodel.CacheLabel: "True"})
		u.SetAnnotations(map[string]string{pkomodel.RevisionAnnotation: fmt.Sprint(owner + 1)})
		uid := pkomodel.Str(e.W.Store.Peek(scen.PKO("ObjectSet").GroupKind(), "ns", names[owner]), "metadata", "uid")
		u.SetOwnerReferences([]metav1.OwnerReference{{APIVersion: corev1alpha1.GroupVersion.String(), Kind: "ObjectSet", Name: names[owner], UID: types.UID(uid), Controller: &t, BlockOwnerDeletion: &t}})
		if err := e.Create("setup", false, u); err != nil {
			panic(err)
		}
	}
	// statuses and lifecycle states
	for k := 0; k < n; k++ {
		rv := rw.Revs[k]
		e.Mutate("setup", false, scen.PKO("ObjectSet"), "ns", names[k], "state "+rv.State, func(u *unstructured.Unstructured) {
			_ = unstructured.SetNestedField(u.Object, rv.State, "spec", "lifecycleState")
			u.SetFinalizers([]string{pkomodel.CachedFinalizer})
		})
		cur := e.GetU("setup", false, scen.PKO("ObjectSet"), "ns", names[k])
		gen := cur.GetGeneration()
		var conds []any
		cond := func(typ, status, reason string) {
			conds = append(conds, map[string]any{"type": typ, "status": status, "reason": reason, "message": "", "observedGeneration": gen, "lastTransitionTime": "2024-01-01T00:00:00Z"})
		}
		if rv.State == "Archived" {
			cond("Archived", "True", "Archived")
		} else {
			if rv.Available {
				cond("Available", "True", "Available")
			} else {
				cond("Available", "False", "ProbeFailure")
			}
			if rv.StatusPaused {
				cond("Paused", "True", "Paused")
			}
		}
		st := map[string]any{"revision": int64(k + 1), "conditions": conds}
		switch rv.ControllerOf {
		case "empty":
			st["controllerOf"] = []any{}
		case "all", "first":
			var l []any
			for oi, on := range objNames {
				if rv.Objects&(1<<oi) == 0 {
					continue
				}
				if rv.ControllerOf == "first" && firstBit(rv.Objects) != oi {
					continue
				}
				l = append(l, map[string]any{"kind": "ConfigMap", "group": "", "name": on, "namespace": "ns"})
			}
			st["controllerOf"] = l
		}
		cur.Object["status"] = st
		sctx, scl := e.W.Actor("setup")
		if err := scl.Status().Update(sctx, cur); err != nil {
			panic(err)
		}
	}
	e.Logf("row %+v", rw)
	// one look of the deployment controller at the chain, then the revisions act on it
	for k := 0; k < 2; k++ {
		e.Reconcile(driver.CtrlObjectDeployment, depKey)
	}
	for k := 0; k < 3; k++ {
		for _, nm := range names {
			e.Reconcile(driver.CtrlObjectSet, types.NamespacedName{Namespace: "ns", Name: nm})
		}
		e.GC()
	}
	c.Eval()
	for _, v := range e.Viol {
		c.Violation(v.Sig, v.Msg, map[string]any{"index": i, "stream": "c08-table", "row": rw, "steps": e.Log, "trace": e.TraceTail(300)})
	}
	for k, v := range e.Counts {
		c.Count(k, v)
	}
	if e.Counts["c08_archivals"]+e.Counts["c08_prunings"] > 0 {
		c.Distinct(strings.Join(e.Log, "\n"))
	}
	if i < 1 {
		c.Sample(map[string]any{"stream": "c08-table", "row": rw, "steps": e.Log})
	}
}

func firstBit(bits int) int {
	for i := 0; i < 3; i++ {
		if bits&(1<<i) != 0 {
			return i
		}
	}
	return -1
}

// directed rows: constellations worth looking at on every run
var directed = []row{
	// an object (cm-x) listed by the oldest and the newest revision but not by the one in between
	{Limit: 10, Revs: []rev{{StatusPaused: true, State: "Paused", Objects: 1, ControllerOf: "all"}, {State: "Active", Objects: 2, ControllerOf: "all"}, {State: "Active", Objects: 1, ControllerOf: "nil"}}},
	{Limit: 10, Revs: []rev{{StatusPaused: true, State: "Paused", Objects: 5, ControllerOf: "all"}, {State: "Active", Objects: 2, ControllerOf: "empty"}, {State: "Active", Objects: 7, ControllerOf: "nil"}}},
	// everything beyond a small history limit
	{Limit: 0, Revs: []rev{{Available: true, StatusPaused: true, State: "Paused", Objects: 3, ControllerOf: "all"}, {State: "Active", Objects: 3, ControllerOf: "nil"}}},
	{Limit: 1, Revs: []rev{{State: "Archived", Objects: 1, ControllerOf: "empty"}, {StatusPaused: true, State: "Paused", Objects: 1, ControllerOf: "empty"}, {Available: true, State: "Active", Objects: 3, ControllerOf: "all"}}},
}

func table(c *vh.Ctx) {
	n := c.N(600, 20000)
	vh.Parallel(n, func(i int) {
		if c.Skip("c08-table", i) {
			return
		}
		if i < len(directed) {
			runRow(c, i, directed[i])
			return
		}
		runRow(c, i, genRow(c.Rand("c08-table", i)))
	})
	c.Count("table_rows", n)
}
