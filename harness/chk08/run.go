// Package chk08 decides property C08 (rollouts never archive or delete what is still serving).
package chk08

import (
	"math/rand"

	"package-operator.run/internal/verifharness/chkfam"
	"package-operator.run/internal/verifharness/monitors"
	"package-operator.run/internal/verifharness/scen"
	"package-operator.run/internal/verifharness/vh"
)

func Run(c *vh.Ctx) {
	table(c)
	chkfam.RunDeployStream(c, chkfam.DeployConfig{
		Stream: "c08", NQuick: 150, NThorough: 3000,
		Profile: func(r *rand.Rand) scen.DeployProfile {
			return scen.DeployProfile{
				Steps: 80 + r.Intn(80), Cluster: r.Intn(4) == 0, Limit: []int{0, 1, 1, 2, 10}[r.Intn(5)], Templates: 3 + r.Intn(2), Delegated: []float64{0, 0, 0.3}[r.Intn(3)],
				Weights: scen.DeployWeightsWith(map[string]int{"edit-template": 8, "workload": 25, "reconcile": 55, "fault": 2, "plant-collision": 0, "adv-delete": 2, "pause-set": 0, "unpause-set": 0, "pause-deployment": 1}),
			}
		},
		Monitors:          func() []scen.Monitor { return []scen.Monitor{&monitors.C08{}} },
		NonTrivialCounter: "c08_archivals",
	})
	for _, g := range []chkfam.Gate{{"c08_archivals", 100}, {"c08_archival_case_newer_available", 30}, {"c08_archival_case_unavailable_and_disjoint", 10}, {"c08_prunings", 20}, {"c08_teardown_deletes_with_newer_revision_alive", 30}} {
		c.GateCount(g.Counter, g.Min)
	}
	c.Finish("exploration",
		"(1) decision sweep: chains of up to 4 revisions whose availability, paused status, lifecycle state and controllerOf overlap with the next revision are set directly in the store, for history limits 0/1/2/10, one pass of the real ObjectDeployment controller each; (2) whole-system rollouts with failing middle revisions, small history limits and probe changes, ObjectDeployment and ObjectSet controllers interleaved; every lifecycle->Archived update and every ObjectSet delete by the deployment controller is judged on the snapshot the pass listed, every managed-object delete of a teardown against the newest live revision of the same deployment; non-trivial = at least one archival; distinct = distinct rows / step logs",
		chkfam.CommonAssumptions)
}
