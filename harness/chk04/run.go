// Package chk04 decides property C04 (teardown in reverse phase order, finalizer held until done).
package chk04

import (
	"math/rand"

	"package-operator.run/internal/verifharness/chkfam"
	"package-operator.run/internal/verifharness/monitors"
	"package-operator.run/internal/verifharness/scen"
	"package-operator.run/internal/verifharness/vh"
)

func Run(c *vh.Ctx) {
	chkfam.Run(c, chkfam.Config{
		Stream: "c04", NQuick: 300, NThorough: 4000,
		Profile: func(r *rand.Rand) scen.Profile {
			return scen.Profile{
				Steps: 60 + r.Intn(60), Cluster: r.Intn(4) == 0, Hosted: r.Intn(4) == 0, Delegated: []float64{0, 0.3, 0.5}[r.Intn(3)], MaxRevisions: 1 + r.Intn(3),
				Weights: scen.WeightsWith(map[string]int{"reconcile": 45, "workload": 8, "adv-finalizer": 8, "adv-reown": 3, "adv-delete": 2, "user-archive": 6, "user-delete": 5, "gc": 6, "restart": 3, "fault": 5, "adv-interpose": 3, "user-next-revision": 3, "adv-delete-phase": 3}),
				CPs:     []string{"", "None", "IfNoController"}, FinalQuiesce: 6,
			}
		},
		Monitors:          func() []scen.Monitor { return []scen.Monitor{&monitors.C04{}} },
		NonTrivialCounter: "c04_teardown_deletes",
		Gates:             []chkfam.Gate{{"c04_teardown_deletes", 300}, {"c04_delegated_teardown_deletes", 10}, {"c04_finalizer_removals", 100}, {"c04_archived_true", 30}, {"c04_archival_in_progress_status", 10}},
		Rule:              "run = random ObjectSets (local, delegated and hosted phases) rolled out and then archived or deleted, with foreign finalizers delaying deletion, objects taken over or removed by third parties, garbage collector steps, delegated phase objects deleted out of band and re-created under a new UID right before the teardown, other revisions alive and operator restarts; at every delete issued by a teardown pass the store is inspected for later-phase objects still controlled, and at every finalizer removal / Archived=True for anything still controlled; non-trivial = at least one teardown delete; distinct = distinct step logs",
	})
}
