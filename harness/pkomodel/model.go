// Package pkomodel interprets stored API objects (plain JSON maps from simkube) for the
// monitors: owners (ObjectSet / ObjectSetPhase and cluster variants), their phases and
// objects, ownership under both owner strategies, revisions, conditions. It is written
// from the API types and the property statements and uses none of PKO's controller code.
package pkomodel

import (
	"encoding/json"
	"sort"
	"strconv"
	"strings"

	metav1 "k8s.io/apimachinery/pkg/apis/meta/v1"
	"k8s.io/apimachinery/pkg/runtime/schema"

	corev1alpha1 "package-operator.run/apis/core/v1alpha1"
	"package-operator.run/internal/verifharness/simkube"
)

const (
	Group               = "package-operator.run"
	RevisionAnnotation  = "package-operator.run/revision"
	OwnersAnnotation    = "package-operator.run/owners"
	CacheLabel          = "package-operator.run/cache"
	CachedFinalizer     = "package-operator.run/cached"
	PackageLabel        = "package-operator.run/package"
	PhaseClassLabel     = "package-operator.run/phase-class"
	PausedByParentAnnot = "package-operator.run/paused-by-parent"
)

type Obj = map[string]any

type Ref struct {
	Group, Kind, Name, UID string
	Controller             bool
}

type PhaseObject struct {
	GVK     schema.GroupVersionKind
	NS      string // namespace after defaulting to the owner's
	SpecNS  string // namespace as listed
	Name    string
	CP      string
	Obj     Obj
	Mapping []corev1alpha1.ConditionMapping
}

func (p PhaseObject) Key() simkube.Key {
	return simkube.Key{Group: p.GVK.Group, Kind: p.GVK.Kind, Namespace: p.NS, Name: p.Name}
}

type Phase struct {
	Name, Class string
	Objects     []PhaseObject
	Slices      []string
}

type Cond struct {
	Type, Status, Reason, Message string
	ObservedGeneration            int64
}

type Owner struct {
	Kind         string
	Cluster      bool
	IsPhase      bool
	NS, Name     string
	UID          string
	Generation   int64
	Revision     int64
	Paused       bool // spec says paused
	Archived     bool // spec says archived
	Deleting     bool
	Finalizers   []string
	Labels       map[string]string
	Annotations  map[string]string
	Phases       []Phase
	Previous     []string
	Probes       []corev1alpha1.ObjectSetProbe
	Conditions   []Cond
	RemotePhases []corev1alpha1.RemotePhaseReference
	ControllerOf []corev1alpha1.ControlledObjectReference
	Class        string // phase objects: class label
	Raw          Obj
}

func (o *Owner) HasFinalizer(f string) bool {
	for _, x := range o.Finalizers {
		if x == f {
			return true
		}
	}
	return false
}

func (o *Owner) Cond(t string) *Cond {
	for i := range o.Conditions {
		if o.Conditions[i].Type == t {
			return &o.Conditions[i]
		}
	}
	return nil
}

func (o *Owner) Ref() Ref {
	return Ref{Group: Group, Kind: o.Kind, Name: o.Name, UID: o.UID}
}

func str(o Obj, path ...string) string {
	var cur any = o
	for _, p := range path {
		m, ok := cur.(map[string]any)
		if !ok {
			return ""
		}
		cur = m[p]
	}
	s, _ := cur.(string)
	return s
}

func Str(o Obj, path ...string) string { return str(o, path...) }

func strMap(o Obj, path ...string) map[string]string {
	var cur any = o
	for _, p := range path {
		m, ok := cur.(map[string]any)
		if !ok {
			return nil
		}
		cur = m[p]
	}
	m, ok := cur.(map[string]any)
	if !ok {
		return nil
	}
	out := map[string]string{}
	for k, v := range m {
		if s, ok := v.(string); ok {
			out[k] = s
		}
	}
	return out
}

func Labels(o Obj) map[string]string      { return strMap(o, "metadata", "labels") }
func Annotations(o Obj) map[string]string { return strMap(o, "metadata", "annotations") }

func int64Of(v any) int64 {
	switch t := v.(type) {
	case int64:
		return t
	case float64:
		return int64(t)
	case int:
		return int64(t)
	}
	return 0
}

func Generation(o Obj) int64 {
	m, _ := o["metadata"].(map[string]any)
	return int64Of(m["generation"])
}

func Finalizers(o Obj) []string {
	m, _ := o["metadata"].(map[string]any)
	l, _ := m["finalizers"].([]any)
	var out []string
	for _, f := range l {
		if s, ok := f.(string); ok {
			out = append(out, s)
		}
	}
	return out
}

func Deleting(o Obj) bool {
	m, _ := o["metadata"].(map[string]any)
	_, ok := m["deletionTimestamp"]
	return ok
}

func conds(o Obj) []Cond {
	st, _ := o["status"].(map[string]any)
	l, _ := st["conditions"].([]any)
	var out []Cond
	for _, c := range l {
		m, ok := c.(map[string]any)
		if !ok {
			continue
		}
		out = append(out, Cond{
			Type: str(m, "type"), Status: str(m, "status"), Reason: str(m, "reason"), Message: str(m, "message"),
			ObservedGeneration: int64Of(m["observedGeneration"]),
		})
	}
	return out
}

func Conditions(o Obj) []Cond { return conds(o) }

func FindCond(o Obj, t string) *Cond {
	for _, c := range conds(o) {
		if c.Type == t {
			cc := c
			return &cc
		}
	}
	return nil
}

func phaseFromAPI(p corev1alpha1.ObjectSetTemplatePhase, ownerNS string) Phase {
	ph := Phase{Name: p.Name, Class: p.Class, Slices: p.Slices}
	for _, o := range p.Objects {
		ph.Objects = append(ph.Objects, phaseObjectFromAPI(o, ownerNS))
	}
	return ph
}

func phaseObjectFromAPI(o corev1alpha1.ObjectSetObject, ownerNS string) PhaseObject {
	ns := o.Object.GetNamespace()
	po := PhaseObject{
		GVK: o.Object.GroupVersionKind(), SpecNS: ns, NS: ns, Name: o.Object.GetName(),
		CP: string(o.CollisionProtection), Obj: o.Object.Object, Mapping: o.ConditionMappings,
	}
	if po.NS == "" {
		po.NS = ownerNS
	}
	if po.CP == "" {
		po.CP = "Prevent"
	}
	return po
}

// OwnerFrom interprets a stored ObjectSet / ClusterObjectSet / ObjectSetPhase / ClusterObjectSetPhase.
func OwnerFrom(o Obj) *Owner {
	if o == nil {
		return nil
	}
	kind, _ := o["kind"].(string)
	ow := &Owner{
		Kind: kind, Cluster: strings.HasPrefix(kind, "Cluster"), IsPhase: strings.HasSuffix(kind, "Phase"),
		NS: str(o, "metadata", "namespace"), Name: str(o, "metadata", "name"), UID: str(o, "metadata", "uid"),
		Generation: Generation(o), Deleting: Deleting(o), Finalizers: Finalizers(o), Labels: Labels(o), Annotations: Annotations(o),
		Conditions: conds(o), Raw: o,
	}
	b, err := json.Marshal(o)
	if err != nil {
		return ow
	}
	if ow.IsPhase {
		var p corev1alpha1.ObjectSetPhase
		if json.Unmarshal(b, &p) != nil {
			return ow
		}
		ow.Revision = p.Spec.Revision
		ow.Paused = p.Spec.Paused
		for _, pr := range p.Spec.Previous {
			ow.Previous = append(ow.Previous, pr.Name)
		}
		ow.Probes = p.Spec.AvailabilityProbes
		ow.Class = p.Labels[PhaseClassLabel]
		ph := Phase{Name: strings.TrimPrefix(p.Name, ""), Class: ow.Class}
		for _, x := range p.Spec.Objects {
			ph.Objects = append(ph.Objects, phaseObjectFromAPI(x, ow.NS))
		}
		ow.Phases = []Phase{ph}
		ow.ControllerOf = p.Status.ControllerOf
		return ow
	}
	var s corev1alpha1.ObjectSet
	if json.Unmarshal(b, &s) != nil {
		return ow
	}
	ow.Revision = s.Status.Revision
	ow.Paused = s.Spec.LifecycleState == corev1alpha1.ObjectSetLifecycleStatePaused
	ow.Archived = s.Spec.LifecycleState == corev1alpha1.ObjectSetLifecycleStateArchived
	for _, pr := range s.Spec.Previous {
		ow.Previous = append(ow.Previous, pr.Name)
	}
	ow.Probes = s.Spec.AvailabilityProbes
	for _, p := range s.Spec.Phases {
		ow.Phases = append(ow.Phases, phaseFromAPI(p, ow.NS))
	}
	ow.RemotePhases = s.Status.RemotePhases
	ow.ControllerOf = s.Status.ControllerOf
	return ow
}

// SliceObjects decodes the objects of an ObjectSlice / ClusterObjectSlice.
func SliceObjects(slice Obj, ownerNS string) []PhaseObject {
	b, err := json.Marshal(slice)
	if err != nil {
		return nil
	}
	var s corev1alpha1.ObjectSlice
	if json.Unmarshal(b, &s) != nil {
		return nil
	}
	var out []PhaseObject
	for _, o := range s.Objects {
		out = append(out, phaseObjectFromAPI(o, ownerNS))
	}
	return out
}

// ---- ownership ---------------------------------------------------------------------------------

func groupOf(apiVersion string) string {
	if i := strings.IndexByte(apiVersion, '/'); i >= 0 {
		return apiVersion[:i]
	}
	return ""
}

// NativeRefs reads metadata.ownerReferences.
func NativeRefs(o Obj) []Ref {
	m, _ := o["metadata"].(map[string]any)
	l, _ := m["ownerReferences"].([]any)
	var out []Ref
	for _, r := range l {
		rm, ok := r.(map[string]any)
		if !ok {
			continue
		}
		c, _ := rm["controller"].(bool)
		out = append(out, Ref{Group: groupOf(str(rm, "apiVersion")), Kind: str(rm, "kind"), Name: str(rm, "name"), UID: str(rm, "uid"), Controller: c})
	}
	return out
}

// AnnotationRefs reads the owners annotation used on hosted clusters. ok=false when the annotation is malformed.
func AnnotationRefs(o Obj) (refs []Ref, ok bool) {
	a := Annotations(o)[OwnersAnnotation]
	if a == "" {
		return nil, true
	}
	var l []struct {
		APIVersion string `json:"apiVersion"`
		Kind       string `json:"kind"`
		Name       string `json:"name"`
		UID        string `json:"uid"`
		Controller *bool  `json:"controller"`
	}
	if err := json.Unmarshal([]byte(a), &l); err != nil {
		return nil, false
	}
	for _, r := range l {
		refs = append(refs, Ref{Group: groupOf(r.APIVersion), Kind: r.Kind, Name: r.Name, UID: r.UID, Controller: r.Controller != nil && *r.Controller})
	}
	return refs, true
}

type Strategy int

const (
	Native Strategy = iota
	Annotation
)

func Refs(o Obj, st Strategy) []Ref {
	if st == Annotation {
		r, _ := AnnotationRefs(o)
		return r
	}
	return NativeRefs(o)
}

func same(a, b Ref) bool {
	return a.Group == b.Group && a.Kind == b.Kind && a.Name == b.Name && a.UID == b.UID
}

func IsController(owner Ref, o Obj, st Strategy) bool {
	for _, r := range Refs(o, st) {
		if r.Controller && same(r, owner) {
			return true
		}
	}
	return false
}

func IsOwner(owner Ref, o Obj, st Strategy) bool {
	for _, r := range Refs(o, st) {
		if same(r, owner) {
			return true
		}
	}
	return false
}

func Controller(o Obj, st Strategy) (Ref, bool) {
	for _, r := range Refs(o, st) {
		if r.Controller {
			return r, true
		}
	}
	return Ref{}, false
}

func Controllers(o Obj, st Strategy) []Ref {
	var out []Ref
	for _, r := range Refs(o, st) {
		if r.Controller {
			out = append(out, r)
		}
	}
	return out
}

// Revision parses the recorded revision of a managed object. ok=false: annotation present but unparsable.
func Revision(o Obj) (rev int64, ok bool) {
	a := Annotations(o)[RevisionAnnotation]
	if a == "" {
		return 0, true
	}
	v, err := strconv.ParseInt(a, 10, 64)
	if err != nil {
		return 0, false
	}
	return v, true
}

func UIDs(refs []Ref) []string {
	var out []string
	for _, r := range refs {
		out = append(out, r.UID)
	}
	sort.Strings(out)
	return out
}

var _ = metav1.Now

// ---- ObjectDeployments ---------------------------------------------------------------------------

type Deployment struct {
	Kind, NS, Name, UID string
	Cluster             bool
	Paused              bool
	Template            corev1alpha1.ObjectSetTemplate
	Selector            map[string]string
	HistoryLimit        int32
	TemplateHash        string
	CollisionCount      *int32
	Generation          int64
	Raw                 Obj
}

func DeploymentFrom(o Obj) *Deployment {
	if o == nil {
		return nil
	}
	b, err := json.Marshal(o)
	if err != nil {
		return nil
	}
	var d corev1alpha1.ObjectDeployment
	if json.Unmarshal(b, &d) != nil {
		return nil
	}
	kind, _ := o["kind"].(string)
	out := &Deployment{
		Kind: kind, Cluster: strings.HasPrefix(kind, "Cluster"), NS: d.Namespace, Name: d.Name, UID: string(d.UID), Paused: d.Spec.Paused,
		Template: d.Spec.Template, Selector: d.Spec.Selector.MatchLabels, HistoryLimit: 10, TemplateHash: d.Status.TemplateHash,
		CollisionCount: d.Status.CollisionCount, Generation: d.Generation, Raw: o,
	}
	if d.Spec.RevisionHistoryLimit != nil {
		out.HistoryLimit = *d.Spec.RevisionHistoryLimit
	}
	return out
}

// TemplateSpecOf returns the ObjectSetTemplateSpec part of a stored ObjectSet as JSON-comparable value.
func TemplateSpecOf(set Obj) any {
	b, err := json.Marshal(set)
	if err != nil {
		return nil
	}
	var s corev1alpha1.ObjectSet
	if json.Unmarshal(b, &s) != nil {
		return nil
	}
	return Canon(s.Spec.ObjectSetTemplateSpec)
}

// Canon renders a value as canonical JSON data (nil and empty collections dropped by omitempty are equal).
func Canon(v any) any {
	b, err := json.Marshal(v)
	if err != nil {
		return nil
	}
	var out any
	_ = json.Unmarshal(b, &out)
	return prune(out)
}

func prune(v any) any {
	switch t := v.(type) {
	case map[string]any:
		for k, x := range t {
			p := prune(x)
			if p == nil {
				delete(t, k)
				continue
			}
			t[k] = p
		}
		if len(t) == 0 {
			return nil
		}
		return t
	case []any:
		if len(t) == 0 {
			return nil
		}
		for i := range t {
			t[i] = prune(t[i])
		}
		return t
	}
	return v
}

// UID of a stored object.
func UID(o Obj) string {
	m, _ := o["metadata"].(map[string]any)
	s, _ := m["uid"].(string)
	return s
}
