package chk19

import (
	"bufio"
	"context"
	"encoding/json"
	"fmt"
	"os"
	"os/exec"
	"path/filepath"
	"runtime"
	"runtime/debug"
	"strconv"
	"strings"
	"sync"
	"time"

	"package-operator.run/internal/verifharness/vh"
)

const (
	childEnv    = "VERIF_C19_CHILD" // stream:lo:hi
	childOutEnv = "VERIF_C19_OUT"
	caseBudget  = 120 * time.Second
)

type event struct {
	T      string         `json:"t"` // begin, end, panic, watchdog
	I      int            `json:"i"`
	Stages map[string]int `json:"stages,omitempty"`
	Sig    string         `json:"sig,omitempty"`
	Msg    string         `json:"msg,omitempty"`
	Stack  string         `json:"stack,omitempty"`
	Where  string         `json:"where,omitempty"`
	Ops    []string       `json:"ops,omitempty"`
}

func scratchDir() string {
	if src := os.Getenv("VERIF_REPO_SRC"); src != "" {
		return filepath.Dir(src)
	}
	return os.TempDir()
}

// ---- child ----

// saveInput writes the input of the case in flight next to the event log before it is executed, so a process death
// can still be attributed to (and replayed from) the exact input.
func saveInput(i int, v any) {
	b, _ := json.Marshal(v)
	_ = os.WriteFile(os.Getenv(childOutEnv)+".input", b, 0o644)
}

func filesAsStrings(f map[string][]byte) map[string]string {
	out := map[string]string{}
	for k, v := range f {
		out[k] = string(v)
	}
	return out
}

func guarded(where string, out func(event), i int, ops []string, f func()) {
	defer func() {
		if p := recover(); p != nil {
			stack := string(debug.Stack())
			out(event{T: "panic", I: i, Sig: frameSig(stack), Msg: firstN(fmt.Sprint(p), 300), Stack: firstN(stack, 6000), Where: where, Ops: ops})
		}
	}()
	f()
}

func firstN(s string, n int) string {
	if len(s) > n {
		return s[:n]
	}
	return s
}

func child(c *vh.Ctx, spec string) {
	parts := strings.Split(spec, ":")
	stream := parts[0]
	lo, _ := strconv.Atoi(parts[1])
	hi, _ := strconv.Atoi(parts[2])
	debug.SetMaxStack(256 << 20)
	f, err := os.OpenFile(os.Getenv(childOutEnv), os.O_APPEND|os.O_CREATE|os.O_WRONLY, 0o644)
	if err != nil {
		panic(err)
	}
	var mu sync.Mutex
	out := func(e event) {
		b, _ := json.Marshal(e)
		mu.Lock()
		_, _ = f.Write(append(b, '\n'))
		mu.Unlock()
	}
	ctx := context.Background()
	scratch := scratchDir()
	for i := lo; i < hi; i++ {
		out(event{T: "begin", I: i})
		wd := time.AfterFunc(caseBudget, func() {
			out(event{T: "watchdog", I: i})
			os.Exit(3)
		})
		st := map[string]int{}
		r := c.Rand("c19-"+stream, i)
		switch stream {
		case "pkg":
			var pc *pkgCase
			guarded("generator", out, i, nil, func() { pc = genPkgCase(r) })
			if pc != nil {
				saveInput(i, map[string]any{"ops": pc.Ops, "files": filesAsStrings(pc.Files), "config": pc.Config, "component": pc.Component})
				for _, o := range pc.Ops {
					st["op_"+strings.SplitN(o, ":", 2)[0]]++
				}
				guarded("package pipeline", out, i, pc.Ops, func() { runPipeline(ctx, pc, st, scratch, i%3 == 0) })
			}
		case "oci":
			oc := genOCICase(r)
			saveInput(i, map[string]any{"ops": oc.Ops, "layers": oc.Layers})
			guarded("oci import", out, i, oc.Ops, func() { runOCI(ctx, oc, st) })
		case "probe":
			guarded("probing", out, i, nil, func() { runProbe(r, st) })
		case "ctrl":
			var recs []panicRec
			guarded("controller harness", out, i, nil, func() {
				recs = runCtrl(r, st, func() map[string][]byte { return genPkgCase(r).Files })
			})
			for _, p := range recs {
				out(event{T: "panic", I: i, Sig: p.Sig, Msg: firstN(p.Msg, 300), Stack: firstN(p.Stack, 6000), Where: "controller pass"})
			}
		}
		wd.Stop()
		out(event{T: "end", I: i, Stages: st})
	}
	_ = f.Close()
	os.Exit(0)
}

// ---- parent ----

type streamSpec struct {
	name            string
	quick, thorough int
}

var streams = []streamSpec{{"pkg", 2400, 40000}, {"oci", 1500, 20000}, {"probe", 4000, 60000}, {"ctrl", 1200, 16000}}

func fatalSig(stderr string) (string, string) {
	kind := "exit"
	lines := strings.Split(stderr, "\n")
	for _, l := range lines {
		if strings.HasPrefix(l, "fatal error: ") {
			kind = strings.TrimPrefix(l, "fatal error: ")
			break
		}
		if strings.HasPrefix(l, "runtime: goroutine stack exceeds") {
			kind = "stack overflow"
			break
		}
		if strings.HasPrefix(l, "panic: ") {
			kind = "unrecovered panic"
			break
		}
	}
	frame := "unknown-frame"
	for _, l := range lines {
		if strings.HasPrefix(l, "package-operator.run/") && !strings.Contains(l, "verifharness") {
			if j := strings.LastIndex(l, "("); j > 0 {
				l = l[:j]
			}
			frame = l
			break
		}
	}
	return kind, frame
}

func runBatch(c *vh.Ctx, stream string, lo, hi int, workdir string, seq int) {
	exe, err := os.Executable()
	if err != nil {
		panic(err)
	}
	for lo < hi {
		outPath := filepath.Join(workdir, fmt.Sprintf("%s-%d-%d.jsonl", stream, seq, lo))
		errPath := outPath + ".stderr"
		errF, _ := os.Create(errPath)
		cmd := exec.Command(exe)
		cmd.Env = append(os.Environ(), childEnv+"="+fmt.Sprintf("%s:%d:%d", stream, lo, hi), childOutEnv+"="+outPath, "GOMAXPROCS=2")
		cmd.Stdout, cmd.Stderr = errF, errF
		runErr := cmd.Run()
		_ = errF.Close()
		// read the event log
		last, ended := -1, map[int]bool{}
		if f, err := os.Open(outPath); err == nil {
			sc := bufio.NewScanner(f)
			sc.Buffer(make([]byte, 1<<20), 1<<24)
			for sc.Scan() {
				var e event
				if json.Unmarshal(sc.Bytes(), &e) != nil {
					continue
				}
				switch e.T {
				case "begin":
					last = e.I
				case "end":
					ended[e.I] = true
					c.Eval()
					c.Count("cases_"+stream, 1)
					nontrivial := false
					for k, v := range e.Stages {
						c.Count(k, v)
						if strings.HasSuffix(k, "_ok") || k == "probe_evaluations" || k == "ctrl_passes" {
							nontrivial = true
						}
					}
					if nontrivial {
						c.DistinctAdd(stream, 1)
					}
				case "panic":
					c.Count("panics_observed", 1)
					c.Violation("C19:panic:"+e.Sig, fmt.Sprintf("%s: %s (stream %s case %d, ops %v)", e.Where, e.Msg, stream, e.I, e.Ops),
						map[string]any{"index": e.I, "stream": "c19-" + stream, "where": e.Where, "panic": e.Msg, "stack": e.Stack, "ops": e.Ops})
				case "watchdog":
					c.Count("watchdog_fired", 1)
					c.Gate("no case exceeded its wall-clock budget", false, fmt.Sprintf("stream %s case %d ran longer than %s (inconclusive, not a violation)", stream, e.I, caseBudget))
				}
			}
			_ = f.Close()
		}
		if runErr == nil {
			_ = os.Remove(outPath)
			_ = os.Remove(errPath)
			_ = os.Remove(outPath + ".input")
			return
		}
		if last < 0 || ended[last] {
			// died outside a case: harness problem
			b, _ := os.ReadFile(errPath)
			c.Gate("child processes ran", false, fmt.Sprintf("child for %s [%d,%d) failed outside a case: %v: %s", stream, lo, hi, runErr, firstN(string(b), 400)))
			return
		}
		if ee, ok := runErr.(*exec.ExitError); ok && ee.ExitCode() == 3 {
			lo = last + 1 // watchdog: skip the case
			continue
		}
		b, _ := os.ReadFile(errPath)
		var input any
		if ib, err := os.ReadFile(outPath + ".input"); err == nil {
			_ = json.Unmarshal(ib, &input)
		}
		kind, frame := fatalSig(string(b))
		c.Count("fatal_crashes_observed", 1)
		c.Violation("C19:fatal:"+kind+":"+frame, fmt.Sprintf("process died in stream %s case %d: %s", stream, last, kind),
			map[string]any{"index": last, "stream": "c19-" + stream, "fatal": kind, "stderr_head": firstN(string(b), 4000), "input": input})
		lo = last + 1
	}
}

func Run(c *vh.Ctx) {
	if spec := os.Getenv(childEnv); spec != "" {
		child(c, spec)
		return
	}
	workdir, err := os.MkdirTemp(scratchDir(), "c19-")
	if err != nil {
		panic(err)
	}
	defer os.RemoveAll(workdir)
	type batch struct {
		stream string
		lo, hi int
	}
	var batches []batch
	for _, s := range streams {
		n := c.N(s.quick, s.thorough)
		if c.Replay != "" && c.ReplayIdx >= 0 {
			if c.ReplayStream == "c19-"+s.name {
				batches = append(batches, batch{s.name, c.ReplayIdx, c.ReplayIdx + 1})
			}
			continue
		}
		size := n / 48
		if size < 10 {
			size = 10
		}
		for lo := 0; lo < n; lo += size {
			hi := lo + size
			if hi > n {
				hi = n
			}
			batches = append(batches, batch{s.name, lo, hi})
		}
	}
	workers := runtime.GOMAXPROCS(0)
	sem := make(chan struct{}, workers)
	var wg sync.WaitGroup
	for k, b := range batches {
		wg.Add(1)
		sem <- struct{}{}
		go func(k int, b batch) {
			defer wg.Done()
			defer func() { <-sem }()
			runBatch(c, b.stream, b.lo, b.hi, workdir, k)
		}(k, b)
	}
	wg.Wait()
	if c.Replay == "" {
		for _, g := range [][2]any{{"cases_pkg", 1000}, {"cases_oci", 500}, {"cases_probe", 1000}, {"cases_ctrl", 500}, {"render_ok", 300}, {"render_err", 300}, {"load_err", 100}, {"validate_err", 100},
			{"cli_validate_err", 100}, {"cli_tree_ok", 20}, {"oci_import_ok", 100}, {"oci_import_err", 100}, {"probe_evaluations", 1000}, {"probe_parse_err", 50}, {"ctrl_hostile_status_set", 500},
			{"ctrl_objectset_cases", 100}, {"ctrl_objecttemplate_cases", 100}, {"ctrl_package_cases", 100}, {"ctrl_objectdeployment_cases", 100}} {
			c.GateCount(g[0].(string), int64(g[1].(int)))
		}
	}
	c.Finish("exploration",
		"case = one hostile input run through real entry points in a child process (batches of cases; the parent logs each case before it starts, survives child death and attributes a fatal crash to the case in flight). Streams: pkg = valid generated package (C13 generator) plus 1-3 hostile edits (YAML tree mutation of manifest/objects, byte-level edits, hostile template snippets incl. include recursion patterns, hostile CEL / condition-map / phase annotations, filter expressions, test cases, config schema, probes, file-set games, config tree mutation) through Load, LoadComponent x4, validators, config admission, RenderPackageInstance, RenderObjectSetTemplateSpec, hash, probe parsing + probing, OCI round trip and (every third case, on disk) kubectl-package validate and tree; oci = hand-built tar layers with hostile headers, truncation and corruption through FromOCI; probe = tree-mutated probe specs parsed and evaluated on hostile objects; ctrl = real ObjectSet/ObjectSetPhase/ObjectTemplate/Package/ObjectDeployment controllers reconciling specs the simulated API accepted while third parties write hostile status shapes. Oracle: no panic (recovered, identified by the innermost package-operator frame), no process death (stack overflow, fatal error); a per-case wall-clock watchdog only yields INCONCLUSIVE. non-trivial = cases that got past the first stage",
		[]string{"inputs are sampled from the generators above; a clean run says nothing about inputs outside them",
			"'accepted by the API schema' is decided by simkube's CRD validation (structural schema, OpenAPI validation, CEL rules of the tree's CRDs)",
			"panics inside text/template function calls are converted to errors by text/template itself and are not counted",
			"owner-annotation / metadata shapes are not part of this property's statement and are not generated"})
}
