package chk19

import (
	"context"
	"encoding/json"
	"math/rand"

	"k8s.io/apimachinery/pkg/apis/meta/v1/unstructured"

	corev1alpha1 "package-operator.run/apis/core/v1alpha1"
	internalprobing "package-operator.run/internal/probing"
)

var probeSeed = []any{
	map[string]any{"selector": map[string]any{"kind": map[string]any{"group": "apps", "kind": "Deployment"}, "selector": map[string]any{"matchLabels": map[string]any{"a": "b"}, "matchExpressions": []any{map[string]any{"key": "a", "operator": "In", "values": []any{"b"}}}}},
		"probes": []any{map[string]any{"condition": map[string]any{"type": "Available", "status": "True"}}, map[string]any{"fieldsEqual": map[string]any{"fieldA": ".status.replicas", "fieldB": ".spec.replicas"}},
			map[string]any{"cel": map[string]any{"rule": "self.status.conditions.exists(c, c.type == \"Ready\")", "message": "m"}}}},
	map[string]any{"selector": map[string]any{"kind": map[string]any{"group": "", "kind": "ConfigMap"}}, "probes": []any{map[string]any{"cel": map[string]any{"rule": "self.data.v == \"x\"", "message": "m"}}, map[string]any{"fieldsEqual": map[string]any{"fieldA": ".data.a", "fieldB": ".data.b"}}}},
}

var hostilePaths = []string{"", ".", "..", ".a", "a", ".status", ".status.conditions", ".status.conditions[0]", ".spec.list[5]", ".a..b", ".a.", "[", ".metadata.labels.a", ".spec.replicas.x", ".\x00", "{.spec}", ".spec['replicas']", ".spec.list[*]"}
var hostileRules = []string{"self", "self.x", "self.status.conditions[5].type == \"x\"", "1/0 == 1", "self.spec.replicas > \"a\"", ")", "", "true", "self.metadata.name.matches(\"(\")", "has(self.status) && self.status.x.y", "self.spec.list.all(x, x > 0)", "self.spec.list[0].a == \"1\"", "size(self) > 0", "self.status.conditions.exists(c, c.status)"}

func runProbe(r *rand.Rand, st map[string]int) {
	ctx := context.Background()
	tree := mutateTree(r, toAny(probeSeed), float64(r.Intn(4)))
	if l, ok := tree.([]any); ok && r.Intn(2) == 0 {
		// targeted hostile paths and rules
		for _, p := range l {
			pm, _ := p.(map[string]any)
			ps, _ := pm["probes"].([]any)
			for _, x := range ps {
				xm, _ := x.(map[string]any)
				if fe, ok := xm["fieldsEqual"].(map[string]any); ok && r.Intn(2) == 0 {
					fe[[]string{"fieldA", "fieldB"}[r.Intn(2)]] = hostilePaths[r.Intn(len(hostilePaths))]
				}
				if ce, ok := xm["cel"].(map[string]any); ok && r.Intn(2) == 0 {
					ce["rule"] = hostileRules[r.Intn(len(hostileRules))]
				}
			}
		}
	}
	b, _ := json.Marshal(tree)
	var probes []corev1alpha1.ObjectSetProbe
	if err := json.Unmarshal(b, &probes); err != nil {
		st["probe_spec_not_decodable"]++
		return
	}
	p, err := internalprobing.Parse(ctx, probes)
	if err != nil {
		st["probe_parse_err"]++
		return
	}
	st["probe_parse_ok"]++
	for k := 0; k < 4; k++ {
		obj := map[string]any{"apiVersion": "apps/v1", "kind": "Deployment", "metadata": map[string]any{"name": "d", "namespace": "ns", "generation": int64(2), "labels": map[string]any{"a": "b"}},
			"spec": map[string]any{"replicas": int64(1), "list": []any{map[string]any{"a": "1"}, "x"}}, "status": hostileStatus(r, 2)}
		if r.Intn(2) == 0 {
			obj["apiVersion"], obj["kind"] = "v1", "ConfigMap"
			obj["data"] = mutateTree(r, map[string]any{"v": "x", "a": "1", "b": "1"}, 1)
		}
		if r.Intn(4) == 0 {
			obj, _ = mutateTree(r, obj, 2).(map[string]any)
			if obj == nil {
				obj = map[string]any{}
			}
		}
		u := &unstructured.Unstructured{Object: obj}
		ok, msgs := p.Probe(u)
		st["probe_evaluations"]++
		if ok {
			st["probe_pass"]++
		}
		_ = msgs
	}
}
