package chk19

import (
	"context"
	"encoding/json"
	"fmt"
	"math/rand"
	"strings"
	"sync"
	"time"

	"github.com/go-logr/logr"
	metav1 "k8s.io/apimachinery/pkg/apis/meta/v1"
	"k8s.io/apimachinery/pkg/apis/meta/v1/unstructured"
	"k8s.io/apimachinery/pkg/types"
	"sigs.k8s.io/controller-runtime/pkg/reconcile"

	corev1alpha1 "package-operator.run/apis/core/v1alpha1"
	"package-operator.run/internal/apis/manifests"
	"package-operator.run/internal/controllers/objecttemplate"
	pkgcontrollers "package-operator.run/internal/controllers/packages"
	"package-operator.run/internal/packages"
	"package-operator.run/internal/verifharness/driver"
	"package-operator.run/internal/verifharness/scen"
	"package-operator.run/internal/verifharness/simkube"
)

type panicRec struct {
	Sig, Msg, Stack string
}

type panicMon struct{ got []panicRec }

func (m *panicMon) OnRequest(*scen.Env, *simkube.Request) {}
func (m *panicMon) OnPassEnd(_ *scen.Env, pr driver.PassResult) {
	if pr.Panic != nil {
		m.got = append(m.got, panicRec{Sig: frameSig(pr.Stack), Msg: fmt.Sprint(pr.Panic), Stack: pr.Stack})
	}
}

// frameSig: the innermost package-operator frame below the panic (not harness code) identifies a crash.
func frameSig(stack string) string {
	lines := strings.Split(stack, "\n")
	start := 0
	for i, l := range lines {
		if strings.HasPrefix(l, "panic(") || strings.HasPrefix(l, "runtime.sigpanic") || strings.Contains(l, "runtime.panic") || strings.HasPrefix(l, "runtime.goPanic") {
			start = i
		}
	}
	for _, l := range lines[start:] {
		if strings.HasPrefix(l, "package-operator.run/") && !strings.Contains(l, "verifharness") {
			if j := strings.LastIndex(l, "("); j > 0 {
				l = l[:j]
			}
			return l
		}
	}
	for _, l := range lines[start:] {
		if !strings.HasPrefix(l, "\t") && !strings.HasPrefix(l, "runtime.") && !strings.HasPrefix(l, "panic(") && !strings.HasPrefix(l, "goroutine ") && strings.Contains(l, "(") && !strings.Contains(l, "verifharness") && l != "" {
			if j := strings.LastIndex(l, "("); j > 0 {
				l = l[:j]
			}
			return "outside-pko:" + l
		}
	}
	return "unknown-frame"
}

var statusSeed = func(gen int64) map[string]any {
	return map[string]any{"observedGeneration": gen, "replicas": int64(1), "phase": "Running",
		"conditions": []any{
			map[string]any{"type": "Available", "status": "True", "reason": "Up", "message": "all good", "observedGeneration": gen, "lastTransitionTime": "2024-01-01T00:00:00Z"},
			map[string]any{"type": "Ready", "status": "False", "reason": "Down", "message": "", "observedGeneration": gen},
			map[string]any{"type": "Progressing", "status": "Unknown"},
		}}
}

func hostileStatus(r *rand.Rand, gen int64) any {
	switch r.Intn(10) {
	case 0:
		return pickAny(r)
	case 1:
		return map[string]any{"conditions": pickAny(r)}
	case 2:
		return map[string]any{"conditions": []any{pickAny(r), pickAny(r)}, "observedGeneration": pickAny(r)}
	case 3:
		// conditions with single fields missing
		c := map[string]any{"type": "Available", "status": "True", "reason": "Up", "message": "m", "observedGeneration": gen}
		delete(c, []string{"type", "status", "reason", "message", "observedGeneration"}[r.Intn(5)])
		c2 := map[string]any{"type": "Ready", "status": "True", "reason": "Up", "message": "m", "observedGeneration": gen}
		c2[[]string{"type", "status", "reason", "message", "observedGeneration"}[r.Intn(5)]] = pickAny(r)
		return map[string]any{"observedGeneration": gen, "conditions": []any{c, c2}}
	}
	return mutateTree(r, statusSeed(gen), 1+float64(r.Intn(4)))
}

type regStub struct {
	mu     sync.Mutex
	images map[string]map[string][]byte
}

func (s *regStub) Pull(_ context.Context, ref string) (*packages.RawPackage, error) {
	s.mu.Lock()
	defer s.mu.Unlock()
	f, ok := s.images[ref]
	if !ok {
		return nil, fmt.Errorf("unknown image %s", ref)
	}
	return &packages.RawPackage{Files: f}, nil
}

var hostileKeys = []string{".data.v", "data.v", "{.data.v}", "{data.v}", "", "{", "}", ".", "..", ".data[*]", ".data['v']", "{.data.v}{.data.w}", "{range .items[*]}{.x}{end}", ".metadata.labels", "$", "@", ".data.v[0]", "{.data..v}", ".spec", ".status.conditions[?(@.type==\"Ready\")].status", ".spec.list[5]", ".spec.list[-1]", ".spec.list[0:9]", "{.spec.list[*].a}", ".nope", strings.Repeat(".a", 100), "{.data.v", ".data.v}", "\x00"}
var hostileDests = []string{".k0", "k0", "", ".", "..", ".a.b.c", ".a..b", ".k0.x", ".0", strings.Repeat(".a", 100), ".k0.", " .k0", ".k-0", ".\x00"}

// runCtrl drives the real controllers over hostile specs and statuses; panics are collected by the pass monitor.
func runCtrl(r *rand.Rand, st map[string]int, pkgFiles func() map[string][]byte) []panicRec {
	mon := &panicMon{}
	reg := &regStub{images: map[string]map[string][]byte{}}
	env := manifests.PackageEnvironment{Kubernetes: manifests.PackageEnvironmentKubernetes{Version: "1.27.3"}}
	e, err := scen.NewEnv(r, driver.Options{
		Controllers: []string{driver.CtrlObjectSet, driver.CtrlObjectSetPhase, driver.CtrlObjectDeployment},
		Extra: func(dw *driver.World) map[string]reconcile.Reconciler {
			cfg := objecttemplate.ControllerConfig{OptionalResourceRetryInterval: time.Second, ResourceRetryInterval: time.Second}
			ot := objecttemplate.NewObjectTemplateController(dw.Cached, dw.Uncached, logr.Discard(), dw.Cache, driver.Scheme, dw.Store.RESTMapper(), cfg)
			ot.SetEnvironment(&env)
			pc := pkgcontrollers.NewPackageController(dw.Cached, dw.Uncached, logr.Discard(), driver.Scheme, reg, nil, nil, nil)
			pc.SetEnvironment(&env)
			return map[string]reconcile.Reconciler{driver.CtrlObjectTemplate: ot, driver.CtrlPackage: pc}
		},
	}, mon)
	if err != nil {
		panic(err)
	}
	ctx, cl := e.W.Actor("setup")
	driver.MustCreate(ctx, cl, driver.Namespace("ns"))
	setStatus := func(gvkKind string, name string) {
		g := scen.GVKWidget
		if gvkKind == "Deployment" {
			g = scen.GVKDeployment
		}
		u := e.GetU("workload", false, g, "ns", name)
		if u == nil {
			return
		}
		hs := hostileStatus(r, u.GetGeneration())
		if hs == nil {
			delete(u.Object, "status")
		} else {
			u.Object["status"] = hs
		}
		c2, ac := e.W.Actor("workload")
		if err := ac.Status().Update(c2, u); err != nil {
			st["ctrl_status_rejected"]++
		} else {
			st["ctrl_hostile_status_set"]++
		}
	}
	switch r.Intn(4) {
	case 0: // ObjectSet: condition mapping + probes over hostile statuses
		st["ctrl_objectset_cases"]++
		obj := func(kind, name string) corev1alpha1.ObjectSetObject {
			g := scen.GVKWidget
			if kind == "Deployment" {
				g = scen.GVKDeployment
			}
			o := scen.ObjectSetObject(scen.Object(g, "", name, "x"), "")
			o.ConditionMappings = []corev1alpha1.ConditionMapping{{SourceType: "Available", DestinationType: "my.org/Available"}, {SourceType: "Ready", DestinationType: "my.org/Ready"}}
			return o
		}
		phases := []corev1alpha1.ObjectSetTemplatePhase{{Name: "a", Objects: []corev1alpha1.ObjectSetObject{obj("Widget", "w1"), obj("Deployment", "d1")}}, {Name: "b", Objects: []corev1alpha1.ObjectSetObject{obj("Widget", "w2")}}}
		if r.Intn(3) == 0 {
			phases[1].Class = "default"
		}
		probes := []corev1alpha1.ObjectSetProbe{
			{Selector: corev1alpha1.ProbeSelector{Kind: &corev1alpha1.PackageProbeKindSpec{Group: "verif.example.com", Kind: "Widget"}},
				Probes: []corev1alpha1.Probe{{Condition: &corev1alpha1.ProbeConditionSpec{Type: "Available", Status: "True"}}, {FieldsEqual: &corev1alpha1.ProbeFieldsEqualSpec{FieldA: ".status.replicas", FieldB: ".spec.replicas"}},
					{CEL: &corev1alpha1.ProbeCELSpec{Rule: `self.status.conditions.exists(c, c.type == "Ready" && c.status == "True")`, Message: "not ready"}}}},
			{Selector: corev1alpha1.ProbeSelector{Kind: &corev1alpha1.PackageProbeKindSpec{Group: "apps", Kind: "Deployment"}},
				Probes: []corev1alpha1.Probe{{Condition: &corev1alpha1.ProbeConditionSpec{Type: "Available", Status: "True"}}, {FieldsEqual: &corev1alpha1.ProbeFieldsEqualSpec{FieldA: ".status.updatedReplicas", FieldB: ".status.replicas"}}}},
		}
		os := scen.NewObjectSet("ns", "set", phases, probes)
		// hostile spec (only what the API schema accepts gets in)
		if r.Intn(3) == 0 {
			b, _ := json.Marshal(os)
			var tree map[string]any
			_ = json.Unmarshal(b, &tree)
			tree["spec"] = mutateTree(r, tree["spec"], 1+float64(r.Intn(3)))
			u := &unstructured.Unstructured{Object: tree}
			u.SetAPIVersion("package-operator.run/v1alpha1")
			u.SetKind("ObjectSet")
			if err := e.Create("user", false, u); err != nil {
				st["ctrl_spec_rejected_by_api"]++
				return mon.got
			}
			st["ctrl_hostile_spec_accepted"]++
		} else if err := e.Create("user", false, os); err != nil {
			panic(err)
		}
		key := types.NamespacedName{Namespace: "ns", Name: "set"}
		for round := 0; round < 4; round++ {
			e.Reconcile(driver.CtrlObjectSet, key)
			for _, k := range driver.Keys(e.W.Store, "ObjectSetPhase") {
				e.Reconcile(driver.CtrlObjectSetPhase, k)
			}
			setStatus("Widget", "w1")
			setStatus("Deployment", "d1")
			setStatus("Widget", "w2")
		}
		e.Reconcile(driver.CtrlObjectSet, key)
	case 1: // ObjectTemplate: hostile items, sources, template text, target status
		st["ctrl_objecttemplate_cases"]++
		srcData := map[string]any{"v": "val", "w": "other"}
		if r.Intn(3) == 0 {
			srcData, _ = mutateTree(r, toAny(srcData), 1).(map[string]any)
		}
		cm := driver.U(map[string]any{"apiVersion": "v1", "kind": "ConfigMap", "metadata": map[string]any{"name": "src"}, "data": srcData})
		cm.SetNamespace("ns")
		_ = e.Create("user", false, cm)
		wd := scen.Object(scen.GVKWidget, "ns", "wsrc", "x")
		_ = unstructured.SetNestedField(wd.Object, []any{map[string]any{"a": "1"}, "x", int64(3)}, "spec", "list")
		_ = e.Create("user", false, wd)
		var sources []any
		for k := 0; k < 1+r.Intn(3); k++ {
			key, dest := ".data.v", fmt.Sprintf(".k%d", k)
			if r.Intn(2) == 0 {
				key = hostileKeys[r.Intn(len(hostileKeys))]
			}
			if r.Intn(2) == 0 {
				dest = hostileDests[r.Intn(len(hostileDests))]
			}
			s := map[string]any{"apiVersion": "v1", "kind": "ConfigMap", "name": "src", "items": []any{map[string]any{"key": key, "destination": dest}}}
			if r.Intn(3) == 0 {
				s["apiVersion"], s["kind"], s["name"] = "verif.example.com/v1", "Widget", "wsrc"
			}
			if r.Intn(4) == 0 {
				s["optional"] = true
				s["name"] = "missing"
			}
			if r.Intn(6) == 0 {
				s["items"] = []any{}
			}
			if r.Intn(8) == 0 {
				s["apiVersion"], s["kind"] = pickString(r), pickString(r)
			}
			sources = append(sources, s)
		}
		text := "apiVersion: verif.example.com/v1\nkind: Widget\nmetadata:\n  name: out\nspec:\n  v: {{ index .config \"k0\" | quote }}\n"
		switch r.Intn(5) {
		case 0:
			text += "  h: " + hostileTemplates[r.Intn(len(hostileTemplates))] + "\n"
		case 1:
			text = string(mutateBytes(r, []byte(text)))
		case 2:
			text = pickString(r)
		}
		ot := driver.U(map[string]any{"apiVersion": "package-operator.run/v1alpha1", "kind": "ObjectTemplate", "metadata": map[string]any{"name": "tpl", "namespace": "ns"},
			"spec": map[string]any{"template": text, "sources": sources}})
		if err := e.Create("user", false, ot); err != nil {
			st["ctrl_spec_rejected_by_api"]++
			return mon.got
		}
		key := types.NamespacedName{Namespace: "ns", Name: "tpl"}
		for round := 0; round < 4; round++ {
			e.Reconcile(driver.CtrlObjectTemplate, key)
			setStatus("Widget", "out")
		}
		e.Reconcile(driver.CtrlObjectTemplate, key)
	case 2: // Package controller over hostile package contents and spec
		st["ctrl_package_cases"]++
		reg.images["quay.io/verif/hostile:v1"] = pkgFiles()
		spec := map[string]any{"image": "quay.io/verif/hostile:v1"}
		switch r.Intn(5) {
		case 0:
			spec["config"] = mutateTree(r, map[string]any{"name": "x", "replicas": int64(2), "flagA": true, "flagB": false, "list": []any{int64(1)}}, 2)
		case 1:
			spec["component"] = pickString(r)
		case 2:
			spec["image"] = pickString(r)
		default:
			spec["config"] = map[string]any{"name": "x", "replicas": int64(2), "flagA": true, "flagB": false}
		}
		pkg := driver.U(map[string]any{"apiVersion": "package-operator.run/v1alpha1", "kind": "Package", "metadata": map[string]any{"name": "pkg", "namespace": "ns"}, "spec": spec})
		if err := e.Create("user", false, pkg); err != nil {
			st["ctrl_spec_rejected_by_api"]++
			return mon.got
		}
		key := types.NamespacedName{Namespace: "ns", Name: "pkg"}
		for round := 0; round < 2; round++ {
			e.Reconcile(driver.CtrlPackage, key)
			for _, k := range driver.Keys(e.W.Store, "ObjectDeployment") {
				e.Reconcile(driver.CtrlObjectDeployment, k)
			}
			for _, k := range driver.Keys(e.W.Store, "ObjectSet") {
				e.Reconcile(driver.CtrlObjectSet, k)
			}
		}
	case 3: // ObjectDeployment over ObjectSets with hostile (schema-accepted) status
		st["ctrl_objectdeployment_cases"]++
		tmpl := corev1alpha1.ObjectSetTemplate{Metadata: metav1.ObjectMeta{Labels: map[string]string{"app": "x"}},
			Spec: corev1alpha1.ObjectSetTemplateSpec{Phases: []corev1alpha1.ObjectSetTemplatePhase{{Name: "a", Objects: []corev1alpha1.ObjectSetObject{scen.ObjectSetObject(scen.Object(scen.GVKConfigMap, "", "c1", "x"), "")}}}}}
		dep := &corev1alpha1.ObjectDeployment{ObjectMeta: metav1.ObjectMeta{Name: "dep", Namespace: "ns"},
			Spec: corev1alpha1.ObjectDeploymentSpec{Selector: metav1.LabelSelector{MatchLabels: map[string]string{"app": "x"}}, Template: tmpl}}
		if err := e.Create("user", false, dep); err != nil {
			panic(err)
		}
		key := types.NamespacedName{Namespace: "ns", Name: "dep"}
		for round := 0; round < 4; round++ {
			e.Reconcile(driver.CtrlObjectDeployment, key)
			for _, k := range driver.Keys(e.W.Store, "ObjectSet") {
				if r.Intn(2) == 0 {
					e.Reconcile(driver.CtrlObjectSet, k)
				}
				u := e.GetU("third-party", false, scen.PKO("ObjectSet"), k.Namespace, k.Name)
				if u == nil {
					continue
				}
				seed := map[string]any{"phase": "Available", "revision": int64(1), "conditions": []any{map[string]any{"type": "Available", "status": "True", "reason": "r", "message": "m", "observedGeneration": int64(1), "lastTransitionTime": "2024-01-01T00:00:00Z"}},
					"controllerOf": []any{map[string]any{"kind": "ConfigMap", "group": "", "name": "c1", "namespace": "ns"}}, "remotePhases": []any{map[string]any{"name": "x", "uid": "u"}}}
				u.Object["status"] = mutateTree(r, seed, 1+float64(r.Intn(3)))
				c2, ac := e.W.Actor("third-party")
				if err := ac.Status().Update(c2, u); err != nil {
					st["ctrl_status_rejected"]++
				} else {
					st["ctrl_hostile_status_set"]++
				}
			}
			if r.Intn(2) == 0 {
				e.Mutate("user", false, scen.PKO("ObjectDeployment"), "ns", "dep", "template edit", func(u *unstructured.Unstructured) {
					_ = unstructured.SetNestedField(u.Object, fmt.Sprintf("v%d", round), "spec", "template", "metadata", "annotations", "rev")
				})
			}
		}
		e.Reconcile(driver.CtrlObjectDeployment, key)
	}
	st["ctrl_passes"] += len(e.W.Passes)
	return mon.got
}
