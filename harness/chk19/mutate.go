// Package chk19 decides C19: no package content or cluster object state can crash Package Operator.
package chk19

import (
	"math/rand"
	"sort"
	"strings"

	"sigs.k8s.io/yaml"
)

var hostileScalars = []any{
	nil, "", " ", "x", "0", "true", "null", "~", int64(0), int64(-1), int64(1) << 53, 1.5, -0.0, true, false,
	[]any{}, map[string]any{}, []any{nil}, map[string]any{"": nil},
	"{{", "}}", "{{ .x }}", "=>", " => ", "a => b => c", "\n", "\t", "a\nb", "\x00", "‮", "../..", "/", ".", "..",
	"-", "---", "*", "[", "{", "&a", "!!binary x", strings.Repeat("a", 300), strings.Repeat("a/", 200), strings.Repeat("(", 300),
	"config.name", "1/0", "[1][5]", "\"a\" + 1", ")", "true ? 1 : false", "config.list[5]", "environment.nope.x",
	"v1", "1.2", ">= x", "sha256:", "@", "a@b", "quay.io/x/y@sha256:00",
}

func pickAny(r *rand.Rand) any {
	v := hostileScalars[r.Intn(len(hostileScalars))]
	switch t := v.(type) {
	case []any:
		return append([]any{}, t...)
	case map[string]any:
		m := map[string]any{}
		for k, x := range t {
			m[k] = x
		}
		return m
	}
	return v
}

func countNodes(v any) int {
	n := 1
	switch t := v.(type) {
	case map[string]any:
		for _, x := range t {
			n += countNodes(x)
		}
	case []any:
		for _, x := range t {
			n += countNodes(x)
		}
	}
	return n
}

// mutateTree returns a copy of a JSON-like tree with on average k hostile edits: nodes deleted, replaced by values of
// another type, wrapped, duplicated, strings perturbed.
func mutateTree(r *rand.Rand, v any, k float64) any {
	n := countNodes(v)
	p := k / float64(n)
	var walk func(v any) any
	mutScalar := func(v any) any {
		switch t := v.(type) {
		case string:
			switch r.Intn(6) {
			case 0:
				return t + pickString(r)
			case 1:
				return pickString(r) + t
			case 2:
				if len(t) > 0 {
					return t[:r.Intn(len(t))]
				}
			case 3:
				return strings.ToUpper(t)
			}
		}
		return pickAny(r)
	}
	walk = func(v any) any {
		switch t := v.(type) {
		case map[string]any:
			out := map[string]any{}
			keys := make([]string, 0, len(t))
			for key := range t {
				keys = append(keys, key)
			}
			sort.Strings(keys)
			for _, key := range keys {
				x := t[key]
				if r.Float64() < p {
					switch r.Intn(6) {
					case 0:
						continue // delete
					case 1:
						out[key] = pickAny(r)
					case 2:
						out[key] = []any{walk(x)}
					case 3:
						out[key] = map[string]any{"x": walk(x)}
					case 4:
						out[key] = walk(x)
						out[key+pickString(r)] = walk(x)
					default:
						out[pickString(r)] = walk(x)
					}
					continue
				}
				out[key] = walk(x)
			}
			if r.Float64() < p {
				out[pickString(r)] = pickAny(r)
			}
			return out
		case []any:
			var out []any
			for _, x := range t {
				if r.Float64() < p {
					switch r.Intn(5) {
					case 0:
						continue
					case 1:
						out = append(out, pickAny(r))
					case 2:
						out = append(out, walk(x), walk(x))
					case 3:
						out = append(out, []any{walk(x)})
					default:
						out = append(out, nil)
					}
					continue
				}
				out = append(out, walk(x))
			}
			if r.Float64() < p {
				out = append(out, pickAny(r))
			}
			if out == nil {
				out = []any{}
			}
			return out
		default:
			if r.Float64() < p {
				return mutScalar(v)
			}
			return v
		}
	}
	return walk(v)
}

func pickString(r *rand.Rand) string {
	for {
		if s, ok := hostileScalars[r.Intn(len(hostileScalars))].(string); ok {
			return s
		}
	}
}

var byteTokens = []string{"{{", "}}", "{{-", "-}}", "---\n", "\n---\n", ": ", "- ", "[", "]", "{", "}", "&a ", "*a", "!!", "\x00", "\t", "=>", "\"", "'", "|", ">", "#", "%", "\r\n", "\xff\xfe", "{{ end }}", "{{ if", "{{ range", "{{ define \"x\" }}", "{{ template \"x\" . }}", "{{ include \"x\" . }}"}

// mutateBytes applies 1-3 byte-level edits: flips, deletions, token insertions, truncation, duplication of a span.
func mutateBytes(r *rand.Rand, b []byte) []byte {
	out := append([]byte{}, b...)
	for n := 1 + r.Intn(3); n > 0; n-- {
		if len(out) == 0 {
			out = []byte(byteTokens[r.Intn(len(byteTokens))])
			continue
		}
		pos := r.Intn(len(out))
		switch r.Intn(6) {
		case 0:
			out[pos] ^= byte(1 << uint(r.Intn(8)))
		case 1:
			end := pos + 1 + r.Intn(20)
			if end > len(out) {
				end = len(out)
			}
			out = append(out[:pos], out[end:]...)
		case 2, 3:
			tok := byteTokens[r.Intn(len(byteTokens))]
			out = append(out[:pos], append([]byte(tok), out[pos:]...)...)
		case 4:
			out = out[:pos]
		case 5:
			end := pos + 1 + r.Intn(40)
			if end > len(out) {
				end = len(out)
			}
			span := append([]byte{}, out[pos:end]...)
			out = append(out[:end], append(span, out[end:]...)...)
		}
	}
	return out
}

// mutateYAMLDocs parses every document of a YAML file and mutates the trees; documents that do not parse are byte-mutated.
func mutateYAMLDocs(r *rand.Rand, b []byte, k float64) []byte {
	docs := strings.Split(string(b), "\n---")
	for i, d := range docs {
		if r.Intn(len(docs)) != 0 && len(docs) > 1 {
			continue
		}
		var tree any
		if err := yaml.Unmarshal([]byte(d), &tree); err != nil || tree == nil {
			docs[i] = string(mutateBytes(r, []byte(d)))
			continue
		}
		nb, err := yaml.Marshal(mutateTree(r, tree, k))
		if err != nil {
			continue
		}
		docs[i] = "\n" + string(nb)
	}
	return []byte(strings.Join(docs, "\n---"))
}
