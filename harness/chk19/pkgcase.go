package chk19

import (
	"archive/tar"
	"bytes"
	"context"
	"encoding/json"
	"fmt"
	"math/rand"
	"os"
	"path/filepath"
	"sort"
	"strings"

	"github.com/go-logr/logr"
	"github.com/google/go-containerregistry/pkg/v1/empty"
	"github.com/google/go-containerregistry/pkg/v1/mutate"
	"github.com/google/go-containerregistry/pkg/v1/static"
	ocitypes "github.com/google/go-containerregistry/pkg/v1/types"
	"k8s.io/apimachinery/pkg/util/validation/field"

	"package-operator.run/internal/apis/manifests"
	pkocmd "package-operator.run/internal/cmd"
	"package-operator.run/internal/packages"
	internalprobing "package-operator.run/internal/probing"
	"package-operator.run/internal/utils"
	"package-operator.run/internal/verifharness/c13"
)

var hostileTemplates = []string{
	// unbounded / deep recursion through include
	`{{- define "rec" }}{{ include "rec" . }}{{ end }}{{ include "rec" . }}`,
	`{{- define "ra" }}{{ include "rb" . }}{{ end }}{{- define "rb" }}{{ include "ra" . }}{{ end }}{{ include "ra" . }}`,
	`{{- define "walk" -}}{{- if .leaf -}}leaf{{- else -}}{{- include "walk" (dict "leaf" true) -}}{{- include "walk" . -}}{{- end -}}{{- end -}}{{ include "walk" (dict "leaf" false) }}`,
	`{{- define "walk2" -}}{{- if .leaf -}}leaf{{- else -}}{{- $x := include "walk2" (dict "leaf" true) -}}{{- include "walk2" (dict "leaf" false "x" $x) -}}{{- end -}}{{- end -}}{{ include "walk2" (dict "leaf" false) }}`,
	`{{- define "count" }}{{ if gt (int .n) 0 }}{{ include "count" (dict "n" (sub (int .n) 1)) }}{{ end }}{{ end }}{{ include "count" (dict "n" 900) }}`,
	`{{- define "t" }}{{ template "t" . }}{{ end }}{{ template "t" . }}`,
	// lookups that fail
	`{{ index .config.list 5 }}`, `{{ .config.name.foo.bar }}`, `{{ .nope.x }}`, `{{ index .config "a" "b" "c" }}`, `{{ index (list 1 2) 7 }}`, `{{ slice "abc" 5 1 }}`,
	`{{ fromYAML "a: [" }}`, `{{ (fromYAML "a: 1").a.b }}`, `{{ getFile "nope" }}`, `{{ getFile "../../etc/passwd" }}`, `{{ getFile "" }}`,
	`{{ cel "config.name" }}`, `{{ cel "1/0" }}`, `{{ cel ")" }}`, `{{ cel "" }}`, `{{ cel "config.list[5]" }}`, `{{ if cel "environment.kubernetes.version" }}x{{ end }}`,
	`{{ template "undefined" . }}`, `{{ include "undefined" . }}`, `{{ include . . }}`, `{{ include "" nil }}`,
	`{{ printf "%d" }}`, `{{ repeat -1 "x" }}`, `{{ b64dec "%%%" }}`, `{{ mustRegexFind "(" "x" }}`, `{{ regexFind "(" "x" }}`, `{{ splitList "" "" | first }}`, `{{ first (list) }}`, `{{ last nil }}`,
	`{{ toJson . }}`, `{{ toYaml .config | indent -4 }}`, `{{ nindent 100000 "x" | len }}`, `{{ div 1 0 }}`, `{{ mod 1 0 }}`, `{{ atoi "x" }}`, `{{ substr 5 1 "abc" }}`, `{{ trunc -5 "abc" }}`,
	`{{ dict "a" }}`, `{{ dict 1 2 }}`, `{{ set .config "x" . }}{{ toJson . }}`, `{{ merge .config . }}`, `{{ deepCopy . | toJson | len }}`, `{{ until -5 }}`, `{{ seq 1 0 -1 }}`,
	`{{ range $i, $e := until 3 }}{{ index $.config.list $i }}{{ end }}`, `{{ with .config.missing }}{{ . }}{{ end }}`, `{{ .config | keys | sortAlpha | first | upper | b64enc | sha256sum }}`,
	`{{ semverCompare ">=x" "1.0.0" }}`, `{{ semver "x" }}`, `{{ toDecimal "x" }}`, `{{ int64 "x" }}`, `{{ float64 nil }}`, `{{ ternary 1 2 nil }}`, `{{ coalesce }}`, `{{ get . "a" }}`, `{{ pluck "a" . nil }}`,
	`{{ $d := dict }}{{ $_ := set $d "self" $d }}{{ $d }}`, `{{ $_ := merge .config . }}{{ . }}`, `{{ $_ := mergeOverwrite . (dict "config" .) }}{{ . }}`, `{{ $_ := mustMerge .config (dict "a" (list .)) }}`,
	`{{ $d := dict "l" (list 1) }}{{ $_ := set $d "l" (append $d.l $d) }}{{ $d }}`, `{{ $_ := set .config "images" .images }}{{ $_ := set .images "config" .config }}{{ . }}`, `{{ $_ := unset . "config" }}{{ .config.name }}`,
	`{{ $a := dict }}{{ $b := dict "a" $a }}{{ $_ := set $a "b" $b }}{{ deepCopy $a }}`, `{{ $a := dict }}{{ $_ := merge $a (dict "x" (dict "y" $a)) }}{{ toYAML $a }}`,
	`{{ "{{" }}`, `{{/* unterminated`, `{{ end }}`, `{{ if }}`, `{{ range }}x{{ end }}`, `{{ define "a" }}{{ define "b" }}{{ end }}{{ end }}`, `{{ block "rec2" . }}{{ template "rec2" . }}{{ end }}`,
}

var hostileCEL = []string{"config.name", "config.replicas", "1/0", "config.list[5]", "\"a\" + 1", ")", "", " ", "has(config)", "environment.nope.x", "config.replicas > \"a\"",
	"[1,2,3].all(x, x > 0)", "true ? 1 : false", strings.Repeat("(", 120) + "true" + strings.Repeat(")", 120), strings.Repeat("!", 400) + "true", "images", "environment", "cond.nope", "cond.a && cond.a",
	"config.name.matches(\"(\")", "config.flagA == null", "dyn(config.flagA)", "int(config.name) > 0", "config.name[0]", "config[\"replicas\"]", "size(config) > 0u", "timestamp(config.name) > timestamp(0)"}

var hostileCondMap = []string{"=>", "a=>", "=>b", "a => b => c", "a", "\n\n", "a => b\n\n c=>d", "a => b\n=>", " => ", "A => my.org/B\nA => my.org/C", strings.Repeat("a => b\n", 300), "a ⇒ b", "a = > b", "a =>\tb\r\n"}

type pkgCase struct {
	Files     map[string][]byte
	Component string
	Config    map[string]any
	Ctx       packages.PackageRenderContext
	Ops       []string
}

func sortedKeys(m map[string][]byte) []string {
	var ks []string
	for k := range m {
		ks = append(ks, k)
	}
	sort.Strings(ks)
	return ks
}

func genPkgCase(r *rand.Rand) *pkgCase {
	seed := c13.GenerateSeed(r)
	pc := &pkgCase{Files: seed.Files, Component: seed.Component, Config: seed.Config}
	op := func(s string) { pc.Ops = append(pc.Ops, s) }
	names := sortedKeys(pc.Files)
	pickFile := func(pred func(string) bool) string {
		var c []string
		for _, n := range names {
			if pred(n) {
				c = append(c, n)
			}
		}
		if len(c) == 0 {
			return ""
		}
		return c[r.Intn(len(c))]
	}
	isManifest := func(n string) bool {
		return strings.HasSuffix(n, "manifest.yaml") || strings.HasSuffix(n, "manifest.yml")
	}
	isTmpl := func(n string) bool { return strings.HasSuffix(n, ".gotmpl") }
	isObj := func(n string) bool {
		return (strings.HasSuffix(n, ".yaml") || strings.HasSuffix(n, ".yml")) && !isManifest(n)
	}
	nOps := 1
	if r.Intn(3) == 0 {
		nOps = 2 + r.Intn(2)
	}
	for n := nOps; n > 0; n-- {
		switch r.Intn(15) {
		case 0, 1: // manifest tree mutation
			if f := pickFile(isManifest); f != "" {
				pc.Files[f] = mutateYAMLDocs(r, pc.Files[f], 1+float64(r.Intn(3)))
				op("manifest-tree:" + f)
			}
		case 2, 3: // object tree mutation
			if f := pickFile(isObj); f != "" {
				pc.Files[f] = mutateYAMLDocs(r, pc.Files[f], 1+float64(r.Intn(3)))
				op("object-tree:" + f)
			}
		case 4: // byte-level mutation of any file
			f := names[r.Intn(len(names))]
			pc.Files[f] = mutateBytes(r, pc.Files[f])
			op("bytes:" + f)
		case 5, 6: // hostile template snippet
			snip := hostileTemplates[r.Intn(len(hostileTemplates))]
			if f := pickFile(isTmpl); f != "" && r.Intn(2) == 0 {
				b := pc.Files[f]
				pos := 0
				if len(b) > 0 {
					pos = r.Intn(len(b))
				}
				pc.Files[f] = append(append(append([]byte{}, b[:pos]...), []byte(snip)...), b[pos:]...)
				op("snippet-into:" + f)
			} else {
				name := fmt.Sprintf("zz-hostile-%d.yaml.gotmpl", r.Intn(3))
				pc.Files[name] = []byte("apiVersion: v1\nkind: ConfigMap\nmetadata:\n  name: hostile\n  annotations:\n    package-operator.run/phase: deploy\ndata:\n  v: " + snip + "\n")
				op("snippet-file")
			}
		case 7: // hostile annotation values on an object
			if f := pickFile(isObj); f != "" {
				ann := []string{"package-operator.run/condition", "package-operator.run/condition-map", "package-operator.run/phase", "package-operator.run/collision-protection"}[r.Intn(4)]
				var val string
				switch ann {
				case "package-operator.run/condition":
					val = hostileCEL[r.Intn(len(hostileCEL))]
				case "package-operator.run/condition-map":
					val = hostileCondMap[r.Intn(len(hostileCondMap))]
				default:
					val = pickString(r)
				}
				vb, _ := json.Marshal(val)
				doc := fmt.Sprintf("\n---\napiVersion: v1\nkind: ConfigMap\nmetadata:\n  name: annotated-%d\n  annotations:\n    package-operator.run/phase: deploy\n    %s: %s\n", r.Intn(100), ann, vb)
				pc.Files[f] = append(pc.Files[f], []byte(doc)...)
				op("annotation:" + ann)
			}
		case 8: // hostile CEL in the manifest filter
			if f := pickFile(isManifest); f != "" {
				var tree map[string]any
				if yamlUnmarshal(pc.Files[f], &tree) == nil && tree != nil {
					spec, _ := tree["spec"].(map[string]any)
					if spec == nil {
						spec = map[string]any{}
						tree["spec"] = spec
					}
					filter, _ := spec["filter"].(map[string]any)
					if filter == nil {
						filter = map[string]any{}
						spec["filter"] = filter
					}
					expr := hostileCEL[r.Intn(len(hostileCEL))]
					if r.Intn(2) == 0 {
						conds, _ := filter["conditions"].([]any)
						filter["conditions"] = append(conds, map[string]any{"name": pickString(r), "expression": expr})
					} else {
						paths, _ := filter["paths"].([]any)
						filter["paths"] = append(paths, map[string]any{"glob": []string{"**", "[", "*.yaml", "a/**/b", "\\", "{a,b}", ""}[r.Intn(7)], "expression": expr})
					}
					pc.Files[f] = yamlMarshal(tree)
					op("filter-cel")
				}
			}
		case 9: // hostile test cases / images / config schema / probes in the manifest
			if f := pickFile(isManifest); f != "" {
				var tree map[string]any
				if yamlUnmarshal(pc.Files[f], &tree) == nil && tree != nil {
					spec, _ := tree["spec"].(map[string]any)
					if spec == nil {
						spec = map[string]any{}
						tree["spec"] = spec
					}
					switch r.Intn(5) {
					case 0:
						tree["test"] = mutateTree(r, map[string]any{"template": []any{map[string]any{"name": "t1", "context": map[string]any{
							"package": map[string]any{"metadata": map[string]any{"name": "n", "namespace": "ns"}}, "config": map[string]any{"name": "x", "flagA": true}}}},
							"kubeconform": map[string]any{"kubernetesVersion": "v1.27.3", "schemaLocations": []any{"x"}}}, 2)
					case 1:
						spec["images"] = mutateTree(r, []any{map[string]any{"name": "img", "image": "quay.io/a/b:v1"}, map[string]any{"name": "img", "image": "@"}}, 1)
					case 2:
						spec["config"] = mutateTree(r, map[string]any{"openAPIV3Schema": map[string]any{"type": "object", "required": []any{"name"}, "properties": map[string]any{
							"name": map[string]any{"type": "string", "default": "x", "pattern": "("}, "replicas": map[string]any{"type": "integer", "default": "three", "minimum": 1},
							"nested": map[string]any{"type": "object", "default": map[string]any{"a": 1}, "properties": map[string]any{"a": map[string]any{"type": "string", "default": 5}}},
							"list":   map[string]any{"type": "array", "items": map[string]any{"type": "integer"}, "default": []any{"x"}},
							"ref":    map[string]any{"$ref": []string{"%", "#/definitions/x", "", "http://[::1", "x y"}[r.Intn(5)]},
							"any":    map[string]any{"x-kubernetes-preserve-unknown-fields": true, "x-kubernetes-int-or-string": true, "anyOf": []any{map[string]any{"type": "integer"}, map[string]any{"type": "string"}}},
							"neg":    map[string]any{"not": map[string]any{"type": "string"}, "oneOf": []any{}, "additionalProperties": map[string]any{"type": "nope"}}}}}, 2)
						if r.Intn(2) == 0 {
							tree["test"] = map[string]any{"template": []any{map[string]any{"name": "t1", "context": map[string]any{
								"package": map[string]any{"metadata": map[string]any{"name": "n", "namespace": "ns"}}, "config": map[string]any{"name": "x", "flagA": true}}}}}
						}
					case 3:
						spec["availabilityProbes"] = mutateTree(r, []any{map[string]any{"selector": map[string]any{"kind": map[string]any{"group": "apps", "kind": "Deployment"}, "selector": map[string]any{"matchExpressions": []any{map[string]any{"key": "a", "operator": "In", "values": []any{"b"}}}}},
							"probes": []any{map[string]any{"condition": map[string]any{"type": "Available", "status": "True"}}, map[string]any{"fieldsEqual": map[string]any{"fieldA": ".a", "fieldB": ".b"}}, map[string]any{"cel": map[string]any{"rule": "self.x", "message": "m"}}}}}, 2)
					case 4:
						spec["components"] = pickAny(r)
					}
					pc.Files[f] = yamlMarshal(tree)
					op("manifest-section")
				}
			}
		case 10: // file set games
			switch r.Intn(6) {
			case 0:
				if f := pickFile(isManifest); f != "" {
					delete(pc.Files, f)
					op("drop-manifest")
				}
			case 1:
				pc.Files["manifest.yml"] = pc.Files["manifest.yaml"]
				op("both-manifests")
			case 2:
				pc.Files["manifest.lock.yaml"] = mutateYAMLDocs(r, []byte("apiVersion: manifests.package-operator.run/v1alpha1\nkind: PackageManifestLock\nmetadata:\n  creationTimestamp: \"2023-01-01T00:00:00Z\"\nspec:\n  images:\n  - name: img\n    image: quay.io/a/b:v1\n    digest: sha256:"+strings.Repeat("ab", 32)+"\n"), 1)
				op("lockfile")
			case 3:
				pc.Files["components/"+pickString(r)+"/manifest.yaml"] = pc.Files["manifest.yaml"]
				op("odd-component-dir")
			case 4:
				pc.Files[pickString(r)+".yaml"] = []byte(pickString(r))
				op("odd-file")
			case 5:
				pc.Files = map[string][]byte{}
				op("empty-package")
			}
		case 11: // config games
			pc.Config, _ = mutateTree(r, toAny(pc.Config), 2).(map[string]any)
			op("config-tree")
		case 12: // scalar documents, lists, empty documents
			if f := pickFile(isObj); f != "" {
				pc.Files[f] = append(pc.Files[f], []byte([]string{"\n---\n", "\n---\n- a\n- b\n", "\n---\nfoo\n", "\n---\n~\n", "\n---\n---\n---\n", "\n---\napiVersion: v1\nkind: List\nitems: []\n", "\n---\nmetadata: x\n", "\n---\nkind: ConfigMap\napiVersion: v1\nmetadata:\n  name: 5\n", "\n---\nkind: ConfigMap\napiVersion: v1\nmetadata: []\n"}[r.Intn(9)])...)
				op("odd-document")
			}
		case 13, 14: // nothing: the seed itself
			op("seed")
		}
	}
	env := manifests.PackageEnvironment{Kubernetes: manifests.PackageEnvironmentKubernetes{Version: seed.K8sVersion}}
	switch r.Intn(8) {
	case 0:
		env.Kubernetes.Version = pickString(r)
	case 1:
		env.OpenShift = &manifests.PackageEnvironmentOpenShift{Version: pickString(r)}
	case 2:
		env.Proxy = &manifests.PackageEnvironmentProxy{}
		env.HyperShift = &manifests.PackageEnvironmentHyperShift{}
	}
	if seed.OpenShift && env.OpenShift == nil {
		env.OpenShift = &manifests.PackageEnvironmentOpenShift{Version: "4.14.1"}
	}
	pc.Ctx = packages.PackageRenderContext{
		Package: manifests.TemplateContextPackage{TemplateContextObjectMeta: manifests.TemplateContextObjectMeta{Name: seed.PkgName, Namespace: seed.PkgNamespace}, Image: "quay.io/org/pkg:v1"},
		Config:  pc.Config, Images: seed.Images, Environment: env,
	}
	if r.Intn(10) == 0 {
		pc.Ctx.Package.Namespace = ""
	}
	if r.Intn(10) == 0 {
		pc.Ctx.Images = nil
	}
	return pc
}

// runPipeline drives every stage of the package pipeline the manager and the CLI run; st counts the stages reached.
func runPipeline(ctx context.Context, pc *pkgCase, st map[string]int, scratch string, cli bool) {
	raw := &packages.RawPackage{Files: pc.Files}
	if _, err := packages.DefaultStructuralLoader.Load(ctx, raw); err == nil {
		st["load_ok"]++
	} else {
		st["load_err"]++
	}
	for _, comp := range []string{pc.Component, "", "frontend", "nope"} {
		pkg, err := packages.DefaultStructuralLoader.LoadComponent(ctx, raw, comp)
		if err != nil {
			st["loadcomponent_err"]++
			continue
		}
		st["loadcomponent_ok"]++
		if err := packages.DefaultPackageValidators.ValidatePackage(ctx, pkg); err == nil {
			st["validate_ok"]++
		} else {
			st["validate_err"]++
		}
		cfg := map[string]any{}
		b, _ := json.Marshal(pc.Config)
		_ = json.Unmarshal(b, &cfg)
		if errs, err := packages.AdmitPackageConfiguration(ctx, cfg, pkg.Manifest, field.NewPath("spec", "config")); err != nil || len(errs) > 0 {
			st["admit_err"]++
		} else {
			st["admit_ok"]++
		}
		raw0 := map[string]any{}
		_ = json.Unmarshal(b, &raw0)
		for pass, c := range []map[string]any{raw0, cfg} {
			if pass == 1 && len(cfg) == len(raw0) {
				break // admission changed nothing
			}
			tctx := pc.Ctx
			tctx.Config = c
			if tctx.Images == nil {
				tctx.Images = utils.GenerateStaticImages(pkg.Manifest)
			}
			// rendering rewrites pkg.Files: every render starts from a fresh load
			pkg2, err := packages.DefaultStructuralLoader.LoadComponent(ctx, raw, comp)
			if err != nil {
				break
			}
			inst, err := packages.RenderPackageInstance(ctx, pkg2, tctx, packages.DefaultPackageValidators, packages.DefaultObjectValidators)
			if err != nil {
				st["render_err"]++
				st["render_errclass_"+errClass(err)]++
				continue
			}
			st["render_ok"]++
			spec := packages.RenderObjectSetTemplateSpec(inst)
			_ = utils.ComputeFNV32Hash(spec, nil)
			if _, err := json.Marshal(spec); err != nil {
				st["marshal_err"]++
			}
			if p, err := internalprobing.Parse(ctx, spec.AvailabilityProbes); err == nil {
				st["probes_parsed"]++
				for _, ph := range spec.Phases {
					for i := range ph.Objects {
						_, _ = p.Probe(&ph.Objects[i].Object)
					}
				}
			}
		}
		// export / import round trip
		if img, err := packages.ToOCI(raw); err == nil {
			if _, err := packages.FromOCI(ctx, img); err == nil {
				st["oci_roundtrip_ok"]++
			}
		}
	}
	if !cli {
		return
	}
	dir, err := os.MkdirTemp(scratch, "c19pkg-")
	if err != nil {
		return
	}
	defer os.RemoveAll(dir)
	for name, content := range pc.Files {
		if name == "" || strings.Contains(name, "\x00") || strings.Contains(name, "..") || strings.HasPrefix(name, "/") || len(name) > 200 {
			continue
		}
		p := filepath.Join(dir, name)
		if os.MkdirAll(filepath.Dir(p), 0o755) != nil {
			continue
		}
		_ = os.WriteFile(p, content, 0o644)
	}
	scheme, err := pkocmd.NewScheme()
	if err != nil {
		panic(err)
	}
	if err := pkocmd.NewValidate(scheme, pkocmd.WithLog{Log: logr.Discard()}).ValidatePackage(ctx, pkocmd.WithPath(dir)); err == nil {
		st["cli_validate_ok"]++
	} else {
		st["cli_validate_err"]++
	}
	tree := pkocmd.NewTree(scheme, pkocmd.WithLog{Log: logr.Discard()})
	for _, opts := range [][]pkocmd.RenderPackageOption{nil, {pkocmd.WithClusterScope(true)}, {pkocmd.WithConfigTestcase("t1")}, {pkocmd.WithConfigTestcase("nope")}} {
		if _, err := tree.RenderPackage(ctx, dir, opts...); err == nil {
			st["cli_tree_ok"]++
		} else {
			st["cli_tree_err"]++
		}
	}
}

// ---- OCI / tar import ----

type ociCase struct {
	Layers [][]byte
	Ops    []string
}

func genOCICase(r *rand.Rand) *ociCase {
	oc := &ociCase{}
	nl := 1 + r.Intn(2)
	for l := 0; l < nl; l++ {
		var buf bytes.Buffer
		tw := tar.NewWriter(&buf)
		n := r.Intn(6)
		for k := 0; k < n; k++ {
			name := []string{"package/manifest.yaml", "package/a.yaml", "package/sub/b.yaml.gotmpl", "manifest.yaml", "package/../../etc/x", "/abs/path", "package/", "package", "./package/x", "package//y", "", ".", "package/" + strings.Repeat("d/", 50) + "f", "package/.wh.a.yaml", "package/.wh..wh..opq", "other/file"}[r.Intn(16)]
			body := []byte("apiVersion: v1\nkind: ConfigMap\nmetadata:\n  name: x\n  annotations:\n    package-operator.run/phase: deploy\n")
			if strings.HasSuffix(name, "manifest.yaml") {
				body = []byte("apiVersion: manifests.package-operator.run/v1alpha1\nkind: PackageManifest\nmetadata:\n  name: p\nspec:\n  scopes: [Namespaced]\n  phases:\n  - name: deploy\n")
			}
			hdr := &tar.Header{Name: name, Mode: 0o644, Size: int64(len(body)), Typeflag: tar.TypeReg}
			switch r.Intn(10) {
			case 0:
				hdr.Typeflag, hdr.Size, body = tar.TypeDir, 0, nil
			case 1:
				hdr.Typeflag, hdr.Linkname, hdr.Size, body = tar.TypeSymlink, "../../etc/passwd", 0, nil
			case 2:
				hdr.Typeflag, hdr.Linkname, hdr.Size, body = tar.TypeLink, "package/manifest.yaml", 0, nil
			case 3:
				hdr.Typeflag, hdr.Size, body = tar.TypeFifo, 0, nil
			case 4:
				hdr.Typeflag, hdr.Size, body = tar.TypeChar, 0, nil
			}
			if tw.WriteHeader(hdr) != nil {
				continue
			}
			_, _ = tw.Write(body)
		}
		if r.Intn(4) != 0 {
			_ = tw.Close()
		} else {
			_ = tw.Flush()
			oc.Ops = append(oc.Ops, "no-trailer")
		}
		b := buf.Bytes()
		switch r.Intn(6) {
		case 0:
			if len(b) > 0 {
				b = b[:r.Intn(len(b))]
				oc.Ops = append(oc.Ops, "truncated")
			}
		case 1:
			b = mutateBytes(r, b)
			oc.Ops = append(oc.Ops, "bytes")
		case 2:
			b = []byte(pickString(r))
			oc.Ops = append(oc.Ops, "garbage")
		case 3:
			if len(b) > 600 {
				// corrupt a header checksum / size field
				pos := (r.Intn(len(b)/512))*512 + 124 + r.Intn(30)
				if pos < len(b) {
					b[pos] = byte('0' + r.Intn(60))
				}
				oc.Ops = append(oc.Ops, "header-field")
			}
		}
		oc.Layers = append(oc.Layers, b)
	}
	return oc
}

func runOCI(ctx context.Context, oc *ociCase, st map[string]int) {
	img := empty.Image
	for _, l := range oc.Layers {
		var err error
		img, err = mutate.AppendLayers(img, static.NewLayer(l, ocitypes.OCIUncompressedLayer))
		if err != nil {
			st["oci_build_err"]++
			return
		}
	}
	raw, err := packages.FromOCI(ctx, img)
	if err != nil {
		st["oci_import_err"]++
		return
	}
	st["oci_import_ok"]++
	if _, err := packages.DefaultStructuralLoader.Load(ctx, raw); err == nil {
		st["oci_load_ok"]++
	}
}

func toAny(v any) any {
	b, _ := json.Marshal(v)
	var out any
	_ = json.Unmarshal(b, &out)
	return out
}

// errClass: a coarse class of an error message (first words, digits and quoted parts removed) for the coverage counters.
func errClass(err error) string {
	m := err.Error()
	var b strings.Builder
	for _, c := range m {
		switch {
		case c >= 'a' && c <= 'z' || c >= 'A' && c <= 'Z' || c == ' ':
			b.WriteRune(c)
		}
		if b.Len() >= 48 {
			break
		}
	}
	return strings.ReplaceAll(strings.TrimSpace(b.String()), " ", "_")
}
