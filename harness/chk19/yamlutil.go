package chk19

import "sigs.k8s.io/yaml"

func yamlUnmarshal(b []byte, v any) error { return yaml.Unmarshal(b, v) }

func yamlMarshal(v any) []byte {
	b, err := yaml.Marshal(v)
	if err != nil {
		return nil
	}
	return b
}
