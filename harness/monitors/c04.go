package monitors

import (
	"fmt"
	"strings"

	"package-operator.run/internal/verifharness/driver"
	"package-operator.run/internal/verifharness/pkomodel"
	"package-operator.run/internal/verifharness/scen"
	"package-operator.run/internal/verifharness/simkube"
)

// C04 - reverse teardown, finalizer held (online at deletes, finalizer removal and Archived=True).
type C04 struct{ Base }

// view reads the current state of a key in `s` from inside a monitor callback of `req`.
func view(req *simkube.Request, s *simkube.Store, k simkube.Key) Obj {
	if req.InStore() == s {
		return s.PeekLocked(k)
	}
	return s.PeekKey(k)
}

// allPhases expands the owner's phases with the slices currently stored.
func allPhases(e *scen.Env, req *simkube.Request, owner *pkomodel.Owner) []passPhase {
	var out []passPhase
	sliceKind := "ObjectSlice"
	if owner.Cluster {
		sliceKind = "ClusterObjectSlice"
	}
	for i, ph := range owner.Phases {
		pp := passPhase{Phase: ph, Index: i, Local: owner.IsPhase || ph.Class == ""}
		for _, sl := range ph.Slices {
			so := view(req, e.W.Store, simkube.Key{Group: pkomodel.Group, Kind: sliceKind, Namespace: owner.NS, Name: sl})
			if so != nil {
				pp.Objects = append(pp.Objects, pkomodel.SliceObjects(so, owner.NS)...)
			}
		}
		out = append(out, pp)
	}
	return out
}

// stillControlled lists what the owner still controls among the given phases.
func stillControlled(e *scen.Env, req *simkube.Request, ctrl string, owner *pkomodel.Owner, phases []passPhase) []string {
	var out []string
	st := scen.StrategyOf(ctrl)
	store := objectStore(e, ctrl)
	phaseKind := "ObjectSetPhase"
	if owner.Cluster {
		phaseKind = "ClusterObjectSetPhase"
	}
	for _, ph := range phases {
		if !ph.Local {
			k := simkube.Key{Group: pkomodel.Group, Kind: phaseKind, Namespace: owner.NS, Name: phaseObjectName(owner, ph.Name)}
			if cur := view(req, e.W.Store, k); cur != nil && pkomodel.IsController(owner.Ref(), cur, pkomodel.Native) {
				out = append(out, keyStr(k))
			}
			continue
		}
		for _, po := range ph.Objects {
			k, _ := storeKey(store, po)
			if cur := view(req, store, k); cur != nil && pkomodel.IsController(owner.Ref(), cur, st) {
				out = append(out, keyStr(k))
			}
		}
	}
	return out
}

func hasString(l []string, s string) bool {
	for _, x := range l {
		if x == s {
			return true
		}
	}
	return false
}

func (m *C04) OnRequest(e *scen.Env, req *simkube.Request) {
	if !req.IsWrite() || req.DryRun || req.Pass == nil || !isSetController(req.Pass.Actor) {
		return
	}
	owner := scen.OwnerOfPass(req.Pass)
	if owner == nil {
		return
	}
	ctrl := req.Pass.Actor
	teardown := owner.Deleting || owner.Archived
	ownKey := req.GVK.Kind == owner.Kind && req.Key.Name == owner.Name && req.Key.Namespace == owner.NS && req.InStore() == e.W.Store
	orphan := owner.HasFinalizer("orphan")

	// (1) reverse order of deletes
	if req.Verb == "delete" && teardown && !owner.IsPhase && !ownKey {
		phases := allPhases(e, req, owner)
		k := -1
		phaseKind := "ObjectSetPhase"
		if owner.Cluster {
			phaseKind = "ClusterObjectSetPhase"
		}
		for _, ph := range phases {
			if !ph.Local {
				if req.GVK.Kind == phaseKind && req.Key.Name == phaseObjectName(owner, ph.Name) {
					k = ph.Index
				}
				continue
			}
			for _, po := range ph.Objects {
				if key, _ := storeKey(e.W.Store, po); key == req.Key && req.InStore() == e.W.Store {
					k = ph.Index
				}
			}
		}
		if k >= 0 {
			e.Count("c04_teardown_deletes")
			if !ph(phases, k).Local {
				e.Count("c04_delegated_teardown_deletes")
			}
			var later []passPhase
			for _, p2 := range phases {
				if p2.Index > k {
					later = append(later, p2)
				}
			}
			if left := stillControlled(e, req, ctrl, owner, later); len(left) > 0 {
				e.Report("C04:delete-before-later-phase-gone",
					fmt.Sprintf("%s %s/%s deletes %s of phase #%d while later-phase objects are still present and controlled: %s", owner.Kind, owner.NS, owner.Name, keyStr(req.Key), k, strings.Join(left, ", ")))
			}
		}
	}
	if !ownKey || req.Err != nil {
		return
	}
	// (2) finalizer removal and (3) Archived=True
	removedFinalizer := req.Sub == "" && req.Pre != nil && hasString(pkomodel.Finalizers(req.Pre), pkomodel.CachedFinalizer) &&
		(req.Post == nil || !hasString(pkomodel.Finalizers(req.Post), pkomodel.CachedFinalizer))
	archivedTrue := false
	var archivedCond *pkomodel.Cond
	if req.Sub == "status" && req.Post != nil {
		archivedCond = pkomodel.FindCond(req.Post, "Archived")
		archivedTrue = archivedCond != nil && archivedCond.Status == "True"
	}
	if removedFinalizer || archivedTrue || (req.Sub == "status" && owner.Archived) {
		phases := allPhases(e, req, owner)
		left := stillControlled(e, req, ctrl, owner, phases)
		what := "removed its finalizer"
		if archivedTrue {
			what = "reported Archived=True"
		}
		switch {
		case removedFinalizer || archivedTrue:
			if removedFinalizer {
				e.Count("c04_finalizer_removals")
			} else {
				e.Count("c04_archived_true")
			}
			if len(left) > 0 && !orphan {
				e.Report("C04:released-while-still-controlling:"+strings.ReplaceAll(what, " ", "-"),
					fmt.Sprintf("%s %s/%s %s while it still controls %s", owner.Kind, owner.NS, owner.Name, what, strings.Join(left, ", ")))
			}
		case len(left) > 0:
			// archival in progress: status must say Archived=False
			e.Count("c04_archival_in_progress_status")
			if archivedCond == nil || archivedCond.Status != "False" {
				e.Report("C04:archival-in-progress-not-reported",
					fmt.Sprintf("%s %s/%s is archived, still controls %s, but the persisted status has Archived=%+v; pass: %s", owner.Kind, owner.NS, owner.Name, strings.Join(left, ", "), archivedCond, passString(req.Pass)+fmt.Sprintf("\n  owner as read: archived=%v deleting=%v paused=%v finalizers=%v conds=%+v\n  body=%v post=%v postnil=%v changed=%v err=%v fault=%q", owner.Archived, owner.Deleting, owner.Paused, owner.Finalizers, owner.Conditions, bodyStatus(req), req.Post["status"], req.Post == nil, req.Changed, req.Err, req.Fault)))
			}
		}
	}
}

func ph(phases []passPhase, idx int) passPhase {
	for _, p := range phases {
		if p.Index == idx {
			return p
		}
	}
	return passPhase{}
}

func (m *C04) OnPassEnd(e *scen.Env, pr driver.PassResult) {
	if pr.Crashed {
		e.Count("c04_crashes")
	}
}

func passString(p *simkube.Pass) string {
	var sb strings.Builder
	for _, r := range p.Requests {
		sb.WriteString("\n      " + r.String())
	}
	return sb.String()
}

func bodyStatus(req *simkube.Request) any {
	b, _ := req.Body.(map[string]any)
	return b["status"]
}
