// Package monitors holds the trace monitors of the whole-system properties. Each monitor is
// a deterministic oracle over the requests of one scenario execution (see DESIGN.md section 4).
package monitors

import (
	"fmt"
	"os"
	"strings"

	"k8s.io/apimachinery/pkg/runtime/schema"

	"package-operator.run/internal/verifharness/driver"
	"package-operator.run/internal/verifharness/pkomodel"
	"package-operator.run/internal/verifharness/scen"
	"package-operator.run/internal/verifharness/simkube"
)

type Obj = map[string]any

// Base gives monitors no-op defaults.
type Base struct{}

func (Base) OnRequest(*scen.Env, *simkube.Request)  {}
func (Base) OnPassEnd(*scen.Env, driver.PassResult) {}

// objectStore returns the store a controller flavour writes managed objects to.
func objectStore(e *scen.Env, ctrl string) *simkube.Store {
	if ctrl == driver.CtrlRemotePhase {
		return e.W.Target
	}
	return e.W.Store
}

// storeKey maps a phase object to its key in the store (cluster-scoped kinds have no namespace).
func storeKey(s *simkube.Store, po pkomodel.PhaseObject) (simkube.Key, bool) {
	k, ok := s.Kind(po.GVK.GroupKind())
	if !ok {
		return simkube.Key{Group: po.GVK.Group, Kind: po.GVK.Kind, Namespace: po.NS, Name: po.Name}, false
	}
	ns := po.NS
	if !k.Namespaced {
		ns = ""
	}
	return simkube.Key{Group: po.GVK.Group, Kind: po.GVK.Kind, Namespace: ns, Name: po.Name}, true
}

func isPKOKind(kind string) bool {
	switch kind {
	case "ObjectSet", "ClusterObjectSet", "ObjectSetPhase", "ClusterObjectSetPhase", "ObjectDeployment", "ClusterObjectDeployment",
		"ObjectSlice", "ClusterObjectSlice", "Package", "ClusterPackage", "ObjectTemplate", "ClusterObjectTemplate":
		return true
	}
	return false
}

func isSetController(ctrl string) bool {
	switch ctrl {
	case driver.CtrlObjectSet, driver.CtrlClusterObjectSet, driver.CtrlObjectSetPhase, driver.CtrlClusterObjectSetPhase, driver.CtrlRemotePhase:
		return true
	}
	return false
}

// passPhases returns the phases whose objects this pass handles in-process, with slices expanded
// from the ObjectSlices the pass read. For ObjectSet passes delegated phases are returned too (Objects
// listed but handled by the phase controller) with Local=false.
type passPhase struct {
	pkomodel.Phase
	Index int
	Local bool
}

func passPhases(p *simkube.Pass, owner *pkomodel.Owner) []passPhase {
	var out []passPhase
	for i, ph := range owner.Phases {
		pp := passPhase{Phase: ph, Index: i}
		if owner.IsPhase {
			pp.Local = true
		} else {
			pp.Local = ph.Class == ""
			for _, sl := range ph.Slices {
				found := false
				for _, r := range p.Requests {
					if r.Verb == "get" && strings.HasSuffix(r.GVK.Kind, "ObjectSlice") && r.Key.Name == sl && r.Err == nil && r.Post != nil {
						pp.Objects = append(pp.Objects, pkomodel.SliceObjects(r.Post, owner.NS)...)
						found = true
						break
					}
				}
				if found {
					continue
				}
				// the pass did not get hold of the slice (stale cache, error): the phase still consists of what the stored
				// slice lists - a pass that goes on without it must not be judged on the part it happened to see
				for _, r := range p.Requests {
					if r.GVK.Kind == owner.Kind && r.Key.Name == owner.Name {
						kind := "ObjectSlice"
						if owner.Cluster {
							kind = "ClusterObjectSlice"
						}
						if so := r.InStore().PeekKey(simkube.Key{Group: pkomodel.Group, Kind: kind, Namespace: owner.NS, Name: sl}); so != nil {
							pp.Objects = append(pp.Objects, pkomodel.SliceObjects(so, owner.NS)...)
						}
						break
					}
				}
			}
		}
		out = append(out, pp)
	}
	return out
}

// ownerRevision is the revision the owner acts with in this pass.
func ownerRevision(p *simkube.Pass, owner *pkomodel.Owner) (int64, bool) {
	if owner.Revision != 0 || owner.IsPhase {
		return owner.Revision, true
	}
	if len(owner.Previous) == 0 {
		return 1, true
	}
	var max int64
	for _, name := range owner.Previous {
		prev := readPrevious(p, owner, name)
		if prev == nil {
			return 0, false // revision reconciler errors when a previous revision is missing
		}
		if prev.Revision == 0 {
			return 0, false
		}
		if prev.Revision > max {
			max = prev.Revision
		}
	}
	return max + 1, true
}

func setKindOf(owner *pkomodel.Owner) string {
	if owner.Cluster {
		return "ClusterObjectSet"
	}
	return "ObjectSet"
}

// readPrevious finds what this pass read for a declared previous revision.
func readPrevious(p *simkube.Pass, owner *pkomodel.Owner, name string) *pkomodel.Owner {
	kind := setKindOf(owner)
	var found *pkomodel.Owner
	for _, r := range p.Requests {
		if r.Verb == "get" && r.GVK.Kind == kind && r.Key.Name == name && r.Key.Namespace == owner.NS && r.Err == nil && r.Post != nil {
			found = pkomodel.OwnerFrom(r.Post)
		}
	}
	return found
}

func hasFault(p *simkube.Pass) bool {
	for _, r := range p.Requests {
		if r.Fault != "" {
			return true
		}
	}
	return false
}

// statusBody returns the status the pass tried to persist last (body of its last status update), or nil.
func statusBody(p *simkube.Pass, owner *pkomodel.Owner) (body Obj, req *simkube.Request) {
	for i := len(p.Requests) - 1; i >= 0; i-- {
		r := p.Requests[i]
		if r.Sub == "status" && r.Verb == "update" && r.GVK.Kind == owner.Kind && r.Key.Name == owner.Name && r.Key.Namespace == owner.NS {
			b, _ := r.Body.(map[string]any)
			return b, r
		}
	}
	return nil, nil
}

func forcedAdoptionEnv() bool { return len(os.Getenv("PKO_FORCE_ADOPTION")) > 0 }

func gk(k simkube.Key) schema.GroupKind { return schema.GroupKind{Group: k.Group, Kind: k.Kind} }

func keyStr(k simkube.Key) string { return fmt.Sprintf("%s %s/%s", k.Kind, k.Namespace, k.Name) }
