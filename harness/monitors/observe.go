package monitors

import (
	"fmt"
	"os"
	"package-operator.run/internal/verifharness/pkomodel"
	"package-operator.run/internal/verifharness/scen"
	"package-operator.run/internal/verifharness/simkube"
)

// observation is what one pass saw of its objects: the last state observed per key (response of
// its last read or successful write; nil = observed absent) and of its delegated phase objects.
type observation struct {
	owner    *pkomodel.Owner
	phases   []passPhase
	store    *simkube.Store
	strategy pkomodel.Strategy
	state    map[simkube.Key]Obj
	seen     map[simkube.Key]bool
	phaseObj map[string]Obj
	phaseOf  map[simkube.Key]int
	writes   map[simkube.Key][]*simkube.Request
}

func observe(e *scen.Env, p *simkube.Pass, owner *pkomodel.Owner) *observation {
	o := &observation{
		owner: owner, phases: passPhases(p, owner), store: objectStore(e, p.Actor), strategy: scen.StrategyOf(p.Actor),
		state: map[simkube.Key]Obj{}, seen: map[simkube.Key]bool{}, phaseObj: map[string]Obj{}, phaseOf: map[simkube.Key]int{},
		writes: map[simkube.Key][]*simkube.Request{},
	}
	phaseKind := "ObjectSetPhase"
	if owner.Cluster {
		phaseKind = "ClusterObjectSetPhase"
	}
	phaseNames := map[string]bool{}
	for _, ph := range o.phases {
		if ph.Local {
			for _, po := range ph.Objects {
				k, _ := storeKey(o.store, po)
				o.phaseOf[k] = ph.Index
			}
		} else {
			phaseNames[phaseObjectName(owner, ph.Name)] = true
		}
	}
	for _, r := range p.Requests {
		if r.Fault == "crash" {
			continue
		}
		if _, ok := o.phaseOf[r.Key]; ok && r.InStore() == o.store && !isPKOKind(r.GVK.Kind) {
			switch {
			case r.Verb == "get":
				o.seen[r.Key] = true
				if r.Err == nil {
					o.state[r.Key] = r.Post
				} else {
					o.state[r.Key] = nil
				}
			case r.IsWrite() && !r.DryRun:
				o.writes[r.Key] = append(o.writes[r.Key], r)
				if r.Err == nil && r.Fault == "" {
					o.seen[r.Key] = true
					if r.Verb == "delete" {
						// the response of a delete is not an observation of presence
					} else {
						o.state[r.Key] = r.Post
					}
				}
			}
			continue
		}
		if !owner.IsPhase && r.GVK.Kind == phaseKind && r.Key.Namespace == owner.NS && phaseNames[r.Key.Name] && r.InStore() == e.W.Store {
			switch {
			case r.Verb == "get":
				// the first read of the pass is the one whose status is relayed (a second read only serves the Paused condition)
				if _, already := o.phaseObj[r.Key.Name]; already {
					break
				}
				if r.Err == nil {
					o.phaseObj[r.Key.Name] = r.Post
				} else {
					o.phaseObj[r.Key.Name] = nil
				}
			case r.IsWrite() && !r.DryRun && r.Err == nil && r.Fault == "" && r.Verb != "delete":
				o.phaseObj[r.Key.Name] = r.Post
			}
		}
	}
	return o
}

// phaseVerdict evaluates phase j on the final observations.
func (o *observation) phaseVerdict(j int) tri {
	ph := o.phases[j]
	if !ph.Local {
		return delegatedPhasePasses(o.phaseObj[phaseObjectName(o.owner, ph.Name)])
	}
	res := triPass
	for _, po := range ph.Objects {
		k, _ := storeKey(o.store, po)
		if !o.seen[k] {
			return triFail
		}
		switch objectPasses(o.owner, o.state[k]) {
		case triFail:
			return triFail
		case triUnknown:
			res = triUnknown
		}
	}
	return res
}

func (o *observation) allPass() tri {
	res := triPass
	for j := range o.phases {
		switch o.phaseVerdict(j) {
		case triFail:
			return triFail
		case triUnknown:
			res = triUnknown
		}
	}
	return res
}

type ctrlRef struct{ Group, Kind, Name, Namespace string }

// observedControlled: everything the pass saw under the owner's control, directly or as reported by a delegated phase.
func (o *observation) observedControlled() map[ctrlRef]bool {
	out := map[ctrlRef]bool{}
	for _, ph := range o.phases {
		if !ph.Local {
			po := o.phaseObj[phaseObjectName(o.owner, ph.Name)]
			if os.Getenv("VERIF_DEBUG") != "" {
				fmt.Printf("DEBUG observedControlled phase %s obj nil=%v keys=%v status=%v\n", ph.Name, po == nil, len(o.phaseObj), po["status"])
			}
			if po != nil {
				if pow := pkomodel.OwnerFrom(po); pow != nil {
					for _, c := range pow.ControllerOf {
						out[ctrlRef{c.Group, c.Kind, c.Name, c.Namespace}] = true
					}
				}
			}
			continue
		}
		for _, x := range ph.Objects {
			k, _ := storeKey(o.store, x)
			st := o.state[k]
			if st != nil && pkomodel.IsController(o.owner.Ref(), st, o.strategy) {
				out[ctrlRef{x.GVK.Group, x.GVK.Kind, pkomodel.Str(st, "metadata", "name"), pkomodel.Str(st, "metadata", "namespace")}] = true
			}
		}
	}
	return out
}

// specObjectsAllControlled: every object in spec was seen under the owner's control.
func (o *observation) specObjectsAllControlled() bool {
	got := o.observedControlled()
	for _, ph := range o.phases {
		for _, x := range ph.Objects {
			k, _ := storeKey(o.store, x)
			ns := k.Namespace
			if !got[ctrlRef{x.GVK.Group, x.GVK.Kind, x.Name, ns}] {
				// delegated phases may report cluster-scoped objects without namespace
				if !got[ctrlRef{x.GVK.Group, x.GVK.Kind, x.Name, ""}] {
					return false
				}
			}
		}
	}
	return true
}
