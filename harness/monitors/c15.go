package monitors

import (
	"fmt"
	"reflect"
	"strings"

	"package-operator.run/internal/verifharness/driver"
	"package-operator.run/internal/verifharness/pkomodel"
	"package-operator.run/internal/verifharness/scen"
	"package-operator.run/internal/verifharness/simkube"
)

// C15 - a delegated phase is realised through exactly one faithful ObjectSetPhase that lives until teardown;
// its Available status is trusted for the current generation only; teardown deletes it and waits.
type C15 struct{ Base }

func isPhaseKind(k string) bool { return k == "ObjectSetPhase" || k == "ClusterObjectSetPhase" }

func controlledPhaseObjects(st *simkube.Store, owner *pkomodel.Owner) []simkube.Key {
	var out []simkube.Key
	for _, k := range st.KeysLocked() {
		if !isPhaseKind(k.Kind) || k.Namespace != owner.NS {
			continue
		}
		if pkomodel.IsController(owner.Ref(), st.PeekLocked(k), pkomodel.Native) {
			out = append(out, k)
		}
	}
	return out
}

func (m *C15) OnRequest(e *scen.Env, req *simkube.Request) {
	if req.Pass == nil || !req.IsWrite() || req.DryRun || req.Err != nil {
		return
	}
	if req.Pass.Actor != driver.CtrlObjectSet && req.Pass.Actor != driver.CtrlClusterObjectSet {
		return
	}
	owner := scen.OwnerOfPass(req.Pass)
	if owner == nil {
		return
	}
	switch {
	case isPhaseKind(req.GVK.Kind) && req.Verb == "delete":
		// (lifetime) the phase object goes away with the ObjectSet's teardown only
		e.Count("c15_phase_object_deletes")
		if !owner.Deleting && !owner.Archived {
			e.Report("C15:phase-object-deleted-outside-teardown", fmt.Sprintf("%s %s/%s is neither archived nor being deleted but its pass sent %s", owner.Kind, owner.NS, owner.Name, req))
		}
	case isPhaseKind(req.GVK.Kind) && req.Post != nil && req.Sub == "":
		// (fidelity) whatever the ObjectSet controller writes, the stored phase object carries the phase as the ObjectSet defines it
		e.Count("c15_phase_object_writes")
		ph := pkomodel.OwnerFrom(req.Post)
		if ph == nil || len(ph.Phases) != 1 {
			e.Report("C15:phase-object-unreadable", fmt.Sprintf("%s", req))
			return
		}
		var want *pkomodel.Phase
		for i := range owner.Phases {
			if owner.Phases[i].Class != "" && owner.Name+"-"+owner.Phases[i].Name == req.Key.Name {
				want = &owner.Phases[i]
			}
		}
		if want == nil {
			e.Report("C15:phase-object-for-no-delegated-phase", fmt.Sprintf("%s %s/%s has no delegated phase named like %s: %s", owner.Kind, owner.NS, owner.Name, req.Key.Name, req))
			return
		}
		if !pkomodel.IsController(owner.Ref(), req.Post, pkomodel.Native) {
			e.Report("C15:phase-object-not-controlled-by-objectset", fmt.Sprintf("%s", req))
		}
		var diffs []string
		if !reflect.DeepEqual(pkomodel.Canon(want.Objects), pkomodel.Canon(ph.Phases[0].Objects)) {
			diffs = append(diffs, "objects")
		}
		if ph.Class != want.Class {
			diffs = append(diffs, fmt.Sprintf("class %s", ph.Class))
		}
		if !reflect.DeepEqual(pkomodel.Canon(owner.Probes), pkomodel.Canon(ph.Probes)) {
			diffs = append(diffs, "probes")
		}
		if rev, ok := ownerRevision(req.Pass, owner); ok && rev != ph.Revision {
			diffs = append(diffs, fmt.Sprintf("revision %d (ObjectSet: %d)", ph.Revision, rev))
		}
		if !reflect.DeepEqual(append([]string{}, owner.Previous...), append([]string{}, ph.Previous...)) {
			diffs = append(diffs, fmt.Sprintf("previous %v (ObjectSet: %v)", ph.Previous, owner.Previous))
		}
		if ph.Paused != owner.Paused && !owner.Archived && !owner.Deleting {
			diffs = append(diffs, fmt.Sprintf("paused %v (ObjectSet: %v)", ph.Paused, owner.Paused))
		}
		if len(diffs) > 0 {
			e.Report("C15:phase-object-differs-from-objectset:"+strings.Fields(diffs[0])[0], fmt.Sprintf("%s %s/%s phase %s: %s after %s", owner.Kind, owner.NS, owner.Name, want.Name, strings.Join(diffs, ", "), req))
		}
	case req.GVK.Kind == owner.Kind && req.Key.Name == owner.Name && req.Post != nil:
		// (teardown waits) the ObjectSet lets go - cached finalizer gone or Archived=True - only after its phase objects are gone
		post := pkomodel.OwnerFrom(req.Post)
		pre := pkomodel.OwnerFrom(req.Pre)
		if post == nil || pre == nil {
			return
		}
		released := pre.HasFinalizer(pkomodel.CachedFinalizer) && !post.HasFinalizer(pkomodel.CachedFinalizer)
		if c := post.Cond("Archived"); c != nil && c.Status == "True" {
			if pc := pre.Cond("Archived"); pc == nil || pc.Status != "True" {
				released = true
			}
		}
		if released {
			e.Count("c15_releases_checked")
			if left := controlledPhaseObjects(req.InStore(), owner); len(left) > 0 {
				e.Report("C15:released-before-phase-objects-gone", fmt.Sprintf("%s %s/%s let go (%s) while %v still exist", owner.Kind, owner.NS, owner.Name, req, left))
			}
		}
	}
}

func (m *C15) OnPassEnd(e *scen.Env, pr driver.PassResult) {
	p := pr.Pass
	if p == nil || (p.Actor != driver.CtrlObjectSet && p.Actor != driver.CtrlClusterObjectSet) || pr.Crashed || pr.Panic != nil {
		return
	}
	owner := scen.OwnerOfPass(p)
	if owner == nil || owner.Deleting || owner.Archived {
		return
	}
	body, req := statusBody(p, owner)
	if req == nil {
		return
	}
	av := pkomodel.FindCond(body, "Available")
	if av == nil || av.Status != "True" {
		return
	}
	// (generation trust) Available=True needs every delegated phase to report Available=True for its current generation,
	// judged on the last state of the phase object this pass has seen (a read, or the response of its own write)
	phaseKind := "ObjectSetPhase"
	if owner.Cluster {
		phaseKind = "ClusterObjectSetPhase"
	}
	for _, ph := range owner.Phases {
		if ph.Class == "" {
			continue
		}
		name := owner.Name + "-" + ph.Name
		var last simkube.Obj
		seen := false
		for _, r := range p.Requests {
			if r.GVK.Kind != phaseKind || r.Key.Name != name || r.Key.Namespace != owner.NS || r.DryRun {
				continue
			}
			if r.Err == nil && r.Post != nil && r.Verb != "delete" {
				last, seen = r.Post, true
			} else if r.Verb == "get" {
				last, seen = nil, true
			}
		}
		if !seen {
			continue
		}
		e.Count("c15_available_relays_checked")
		c := pkomodel.FindCond(last, "Available")
		switch {
		case last == nil:
			e.Report("C15:available-without-phase-object", fmt.Sprintf("%s %s/%s reports Available=True, phase object %s was not found in this pass", owner.Kind, owner.NS, owner.Name, name))
		case c == nil || c.Status != "True":
			e.Report("C15:available-although-phase-not-available", fmt.Sprintf("%s %s/%s reports Available=True, phase object %s says %+v", owner.Kind, owner.NS, owner.Name, name, c))
		case c.ObservedGeneration != pkomodel.Generation(last):
			e.Report("C15:stale-phase-status-trusted", fmt.Sprintf("%s %s/%s reports Available=True, but phase object %s is at generation %d and its Available condition talks about generation %d",
				owner.Kind, owner.NS, owner.Name, name, pkomodel.Generation(last), c.ObservedGeneration))
		}
	}
}
