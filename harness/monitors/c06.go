package monitors

import (
	"fmt"
	"sort"
	"strings"

	"package-operator.run/internal/verifharness/driver"
	"package-operator.run/internal/verifharness/pkomodel"
	"package-operator.run/internal/verifharness/scen"
	"package-operator.run/internal/verifharness/simkube"
)

// C06 - the status never claims more than the pass observed.
type C06 struct{ Base }

func condEq(a, b *pkomodel.Cond) bool {
	if a == nil || b == nil {
		return a == nil && b == nil
	}
	return a.Status == b.Status && a.Reason == b.Reason && a.ObservedGeneration == b.ObservedGeneration && a.Message == b.Message
}

// condEqCarry: the status write merely carries over what is stored (e.g. the revision reconciler's status update).
func condEqCarry(b, a *pkomodel.Cond, bOwner *pkomodel.Owner, pre Obj) bool {
	if !condEq(b, a) {
		return false
	}
	po := pkomodel.OwnerFrom(pre)
	if po == nil {
		return false
	}
	return fmt.Sprint(po.ControllerOf) == fmt.Sprint(bOwner.ControllerOf)
}

func isSetKind(kind string) bool {
	return kind == "ObjectSet" || kind == "ClusterObjectSet"
}

// online part: Succeeded is never withdrawn; completed archival shows no Available and no controllerOf.
func (m *C06) OnRequest(e *scen.Env, req *simkube.Request) {
	if !req.IsWrite() || req.DryRun || req.Err != nil || !req.Changed || !isSetKind(req.GVK.Kind) || req.Pre == nil || req.Post == nil {
		return
	}
	if pkomodel.Str(req.Pre, "metadata", "uid") != pkomodel.Str(req.Post, "metadata", "uid") {
		return
	}
	if a := pkomodel.FindCond(req.Pre, "Succeeded"); a != nil && a.Status == "True" {
		if b := pkomodel.FindCond(req.Post, "Succeeded"); b == nil || b.Status != "True" {
			e.Report("C06:succeeded-withdrawn", fmt.Sprintf("%s: Succeeded=True disappeared by %s", keyStr(req.Key), req))
		}
	}
	if b := pkomodel.FindCond(req.Post, "Archived"); b != nil && b.Status == "True" {
		ow := pkomodel.OwnerFrom(req.Post)
		if av := pkomodel.FindCond(req.Post, "Available"); av != nil {
			e.Report("C06:available-shown-after-archival", fmt.Sprintf("%s: Archived=True together with Available=%s by %s", keyStr(req.Key), av.Status, req))
		}
		if ow != nil && len(ow.ControllerOf) > 0 {
			e.Report("C06:controllerof-after-archival", fmt.Sprintf("%s: Archived=True with %d controllerOf entries by %s", keyStr(req.Key), len(ow.ControllerOf), req))
		}
	}
}

func (m *C06) OnPassEnd(e *scen.Env, pr driver.PassResult) {
	p := pr.Pass
	if p == nil || !isSetController(p.Actor) {
		return
	}
	owner := scen.OwnerOfPass(p)
	if owner == nil {
		return
	}
	// once archival has completed the ObjectSet is not reconciled again
	if c := owner.Cond("Archived"); c != nil && c.Status == "True" && !owner.IsPhase {
		e.Count("c06_passes_on_archived_set")
		if len(p.Requests) > 1 {
			e.Report("C06:archived-set-reconciled-again", fmt.Sprintf("%s %s/%s has Archived=True but the pass issued %d requests, e.g. %s", owner.Kind, owner.NS, owner.Name, len(p.Requests), p.Requests[1]))
		}
		return
	}
	obs := observe(e, p, owner)
	teardown := owner.Deleting || owner.Archived
	// every successful status write of the pass
	for _, r := range p.Requests {
		if r.Sub != "status" || r.Verb != "update" || r.Err != nil || r.Fault != "" || r.GVK.Kind != owner.Kind || r.Key.Name != owner.Name || r.Key.Namespace != owner.NS {
			continue
		}
		body, _ := r.Body.(map[string]any)
		if body == nil {
			continue
		}
		e.Count("c06_status_writes")
		pre := r.Pre
		ctx := fmt.Sprintf("%s %s/%s (generation read %d): %s", owner.Kind, owner.NS, owner.Name, owner.Generation, r)
		bAvail, aAvail := pkomodel.FindCond(body, "Available"), pkomodel.FindCond(pre, "Available")
		newlyAvailable := bAvail != nil && bAvail.Status == "True" && !condEq(bAvail, aAvail)
		if bAvail != nil && bAvail.Status == "True" {
			e.Count("c06_available_true_written")
		}
		if bAvail != nil && bAvail.Status == "False" {
			e.Count("c06_available_false_written")
		}
		if newlyAvailable {
			if bAvail.ObservedGeneration != owner.Generation {
				e.Report("C06:available-for-generation-not-read", fmt.Sprintf("Available=True for generation %d: %s", bAvail.ObservedGeneration, ctx))
			}
			if teardown {
				e.Report("C06:available-true-from-teardown-pass", ctx)
			}
			if v := obs.allPass(); v == triFail && !teardown {
				var why []string
				for j := range obs.phases {
					if obs.phaseVerdict(j) == triFail {
						why = append(why, fmt.Sprintf("phase #%d %q", j, obs.phases[j].Name))
					}
				}
				e.Report("C06:available-true-not-observed", fmt.Sprintf("Available=True written but on what the pass observed %s did not pass: %s", strings.Join(why, ", "), ctx))
			}
		}
		// controllerOf entries were seen controlled in this pass (only when the pass computed the list: it ended without error)
		bOwner := pkomodel.OwnerFrom(withKind(body, owner))
		// (the statement ties the accuracy of controllerOf to writing Available=True; a pass that ends in
		// CollisionDetected / PreflightError carries the stored list over)
		if bOwner != nil && bAvail != nil && bAvail.Status == "True" && !condEqCarry(bAvail, aAvail, bOwner, pre) && !teardown {
			got := obs.observedControlled()
			var listed []string
			for _, c := range bOwner.ControllerOf {
				ref := ctrlRef{c.Group, c.Kind, c.Name, c.Namespace}
				listed = append(listed, fmt.Sprintf("%s/%s %s/%s", c.Group, c.Kind, c.Namespace, c.Name))
				if !got[ref] {
					e.Report("C06:controllerof-entry-not-observed", fmt.Sprintf("status lists %s/%s %s/%s as controlled, the pass did not observe that: %s", c.Group, c.Kind, c.Namespace, c.Name, ctx))
				}
			}
			if bAvail != nil && bAvail.Status == "True" && !owner.Paused {
				var want []string
				for ref := range got {
					want = append(want, fmt.Sprintf("%s/%s %s/%s", ref.Group, ref.Kind, ref.Namespace, ref.Name))
				}
				sort.Strings(want)
				sort.Strings(listed)
				if strings.Join(want, ";") != strings.Join(listed, ";") {
					e.Report("C06:controllerof-incomplete-while-available", fmt.Sprintf("Available=True but controllerOf %v differs from what the pass observed under control %v: %s", listed, want, ctx))
				}
				e.Count("c06_controllerof_complete_checked")
			}
		}
		// Succeeded newly set
		bS, aS := pkomodel.FindCond(body, "Succeeded"), pkomodel.FindCond(pre, "Succeeded")
		if bS != nil && bS.Status == "True" && (aS == nil || aS.Status != "True") {
			e.Count("c06_succeeded_set")
			if bAvail == nil || bAvail.Status != "True" {
				e.Report("C06:succeeded-without-available", ctx)
			}
			if it := pkomodel.FindCond(body, "InTransition"); it != nil && it.Status == "True" {
				e.Report("C06:succeeded-during-transition", ctx)
			}
		}
		// InTransition cleared
		aT, bT := pkomodel.FindCond(pre, "InTransition"), pkomodel.FindCond(body, "InTransition")
		if aT != nil && aT.Status == "True" && bT == nil && !teardown && !owner.IsPhase {
			e.Count("c06_intransition_cleared")
			if !obs.specObjectsAllControlled() {
				e.Report("C06:intransition-cleared-without-full-control", fmt.Sprintf("InTransition removed although the pass did not see every spec object under the ObjectSet's control (seen controlled: %v; spec: %v): %s", obs.observedControlled(), specList(obs), ctx))
			}
		}
		if c := pkomodel.FindCond(body, "Archived"); c != nil && c.Status == "True" {
			e.Count("c06_archived_true_written")
		}
	}
}

func withKind(body Obj, owner *pkomodel.Owner) Obj {
	b := deepCopyObj(body)
	if _, ok := b["kind"]; !ok {
		b["kind"] = owner.Kind
	}
	return b
}

func specList(o *observation) []string {
	var out []string
	for _, ph := range o.phases {
		for _, x := range ph.Objects {
			out = append(out, fmt.Sprintf("%s:%s/%s %s/%s", ph.Name, x.GVK.Group, x.GVK.Kind, x.NS, x.Name))
		}
	}
	return out
}
