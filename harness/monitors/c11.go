package monitors

import (
	"fmt"
	"strings"

	"package-operator.run/internal/verifharness/driver"
	"package-operator.run/internal/verifharness/pkomodel"
	"package-operator.run/internal/verifharness/scen"
	"package-operator.run/internal/verifharness/simkube"
)

// C11 - no write before preflight passes, and never outside the owner's namespace.
type C11 struct{ Base }

func namespacedOwnerController(ctrl string) bool {
	switch ctrl {
	case driver.CtrlObjectSet, driver.CtrlObjectSetPhase, driver.CtrlObjectTemplate:
		return true
	}
	return false
}

// online: namespace confinement of every write of a namespaced owner
func (m *C11) OnRequest(e *scen.Env, req *simkube.Request) {
	if !req.IsWrite() || req.DryRun || req.Pass == nil || !namespacedOwnerController(req.Pass.Actor) {
		return
	}
	ns := req.Pass.Key.Namespace
	if ns == "" {
		return
	}
	k, ok := req.InStore().Kind(gk(req.Key))
	if !ok {
		return
	}
	e.Count("c11_writes_by_namespaced_owners")
	what := fmt.Sprintf("%s %s: %s", req.Pass.Actor, req.Pass.Key, req)
	if req.Err != nil {
		what += " (request failed: " + firstLine(req.Err.Error()) + ")"
	}
	switch {
	case !k.Namespaced:
		outcome := "attempted"
		if req.Err == nil && req.Changed {
			outcome = "committed"
		}
		e.Report("C11:namespaced-owner-wrote-cluster-scoped-object:"+req.Verb+":"+outcome, what)
	case req.Key.Namespace != ns:
		e.Report("C11:namespaced-owner-wrote-other-namespace:"+req.Verb, what)
	}
}

func firstLine(s string) string {
	if i := strings.IndexByte(s, '\n'); i >= 0 {
		return s[:i]
	}
	return s
}

// RefPreflight is the reference preflight predicate, evaluated on the object as listed in the spec.
func RefPreflight(store *simkube.Store, ctrl string, owner *pkomodel.Owner, phaseClass string, po pkomodel.PhaseObject) string {
	k, known := store.Kind(po.GVK.GroupKind())
	if !known || k.GVK.Version != po.GVK.Version {
		return "unknown-api"
	}
	if md, ok := po.Obj["metadata"].(map[string]any); ok {
		if l, ok := md["ownerReferences"].([]any); ok && len(l) > 0 {
			return "preset-ownerreferences"
		}
		if ann, ok := md["annotations"].(map[string]any); ok && ann[simkube.RejectAnnotation] == "true" {
			return "rejected-by-dry-run"
		}
	}
	if owner.NS != "" && phaseClass == "" && ctrl != driver.CtrlRemotePhase {
		if !k.Namespaced {
			return "cluster-scoped-kind"
		}
		if po.SpecNS != "" && po.SpecNS != owner.NS {
			return "foreign-namespace"
		}
	}
	return ""
}

func (m *C11) OnPassEnd(e *scen.Env, pr driver.PassResult) {
	p := pr.Pass
	if p == nil || !isSetController(p.Actor) {
		return
	}
	owner := scen.OwnerOfPass(p)
	if owner == nil || owner.Deleting || owner.Archived {
		return
	}
	if c := owner.Cond("Archived"); c != nil && c.Status == "True" {
		return
	}
	if owner.IsPhase && owner.Class != phaseClassOf(p.Actor) {
		return
	}
	store := objectStore(e, p.Actor)
	phases := passPhases(p, owner)
	writesOn := func(key simkube.Key) []*simkube.Request {
		var out []*simkube.Request
		for _, r := range p.Requests {
			if r.InStore() == store && r.Key == key && r.IsWrite() && !r.DryRun && !isPKOKind(r.GVK.Kind) && r.Fault != "crash" {
				out = append(out, r)
			}
		}
		return out
	}
	reached := func(ph passPhase) bool {
		for _, po := range ph.Objects {
			key, _ := storeKey(store, po)
			for _, r := range p.Requests {
				if r.InStore() == store && r.Key == key && r.DryRun {
					return true
				}
			}
		}
		return false
	}
	// duplicates across phases
	dup := ""
	if !owner.IsPhase {
		seen := map[string]bool{}
		for _, ph := range phases { // slices are loaded before the duplicate check runs
			for _, po := range ph.Objects {
				id := fmt.Sprintf("%s/%s %s/%s", po.GVK.Group, po.GVK.Kind, po.SpecNS, po.Name)
				if seen[id] {
					dup = id
				}
				seen[id] = true
			}
		}
	}
	expectPreflight := ""
	if dup != "" {
		e.Count("c11_duplicate_cases")
		for _, ph := range phases {
			for _, po := range ph.Objects {
				key, _ := storeKey(store, po)
				if w := writesOn(key); len(w) > 0 {
					e.Report("C11:write-despite-duplicate-object", fmt.Sprintf("%s %s/%s lists %s twice but wrote %s", owner.Kind, owner.NS, owner.Name, dup, w[0]))
				}
			}
		}
		expectPreflight = "duplicate " + dup
	} else {
		for _, ph := range phases {
			if !ph.Local {
				continue
			}
			class := ""
			var bad []string
			for i, po := range ph.Objects {
				if v := RefPreflight(store, p.Actor, owner, ph.Class, po); v != "" {
					bad = append(bad, fmt.Sprintf("#%d %s %s/%s: %s", i, po.GVK.Kind, po.SpecNS, po.Name, v))
					class = v
					e.Count("c11_violating_object_" + v)
				}
			}
			// "a server-side dry run accepts it": a dry run that ended in any error did not accept the object
			dryRunErr := false
			if len(bad) == 0 {
				for i, po := range ph.Objects {
					key, _ := storeKey(store, po)
					var last *simkube.Request
					for _, r := range p.Requests {
						if r.InStore() == store && r.Key == key && r.DryRun && r.Fault != "crash" {
							last = r
						}
					}
					if last != nil && last.Err != nil {
						bad = append(bad, fmt.Sprintf("#%d %s %s/%s: dry run failed: %s", i, po.GVK.Kind, po.SpecNS, po.Name, firstLine(last.Err.Error())))
						class = "dry-run-error"
						dryRunErr = true
						e.Count("c11_dry_run_errors")
					}
				}
			}
			if len(bad) == 0 {
				continue
			}
			for _, po := range ph.Objects {
				key, _ := storeKey(store, po)
				if w := writesOn(key); len(w) > 0 {
					e.Report("C11:write-in-phase-with-preflight-violation:"+class,
						fmt.Sprintf("%s %s/%s phase %q contains %s but the pass wrote %s", owner.Kind, owner.NS, owner.Name, ph.Name, strings.Join(bad, "; "), w[0]))
					break
				}
			}
			if reached(ph) && expectPreflight == "" && !dryRunErr {
				expectPreflight = fmt.Sprintf("phase %q: %s", ph.Name, strings.Join(bad, "; "))
			}
			break // later phases are not reached in a correct implementation
		}
	}
	if expectPreflight == "" || pr.Crashed || pr.Panic != nil || hasFault(p) || owner.Paused {
		return
	}
	e.Count("c11_preflight_error_expected")
	body, req := statusBody(p, owner)
	if req == nil {
		e.Report("C11:preflight-violation-not-reported:no-status", fmt.Sprintf("%s %s/%s: %s; pass error: %v", owner.Kind, owner.NS, owner.Name, expectPreflight, pr.Err))
		return
	}
	if c := pkomodel.FindCond(body, "Available"); c == nil || c.Status != "False" || c.Reason != "PreflightError" {
		e.Report("C11:preflight-violation-not-reported:wrong-condition", fmt.Sprintf("%s %s/%s: %s; submitted Available=%+v", owner.Kind, owner.NS, owner.Name, expectPreflight, c))
	} else if pr.Result.RequeueAfter <= 0 && pr.Err == nil {
		e.Report("C11:preflight-violation-not-retried", fmt.Sprintf("%s %s/%s: PreflightError reported without requeue", owner.Kind, owner.NS, owner.Name))
	}
}
