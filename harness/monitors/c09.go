package monitors

import (
	"fmt"
	"strings"

	apierrors "k8s.io/apimachinery/pkg/api/errors"

	"package-operator.run/internal/verifharness/driver"
	"package-operator.run/internal/verifharness/pkomodel"
	"package-operator.run/internal/verifharness/scen"
	"package-operator.run/internal/verifharness/simkube"
)

// C09 - paused means hands-off (ObjectSet / ObjectSetPhase level).
type C09 struct {
	Base
	ownFailures map[string]int // paused owner -> consecutive passes that failed without any failing API request
}

func (m *C09) OnRequest(e *scen.Env, req *simkube.Request) {
	if !req.IsWrite() || req.DryRun || req.Pass == nil || !isSetController(req.Pass.Actor) || isPKOKind(req.GVK.Kind) {
		return
	}
	owner := scen.OwnerOfPass(req.Pass)
	if owner == nil || !owner.Paused || owner.Deleting || owner.Archived {
		return
	}
	e.Report("C09:write-while-paused:"+req.Verb, fmt.Sprintf("%s %s/%s is paused but its pass sent %s", owner.Kind, owner.NS, owner.Name, req))
}

func (m *C09) OnPassEnd(e *scen.Env, pr driver.PassResult) {
	p := pr.Pass
	if p == nil || !isSetController(p.Actor) {
		return
	}
	owner := scen.OwnerOfPass(p)
	if owner == nil || !owner.Paused || owner.Deleting || owner.Archived {
		return
	}
	if c := owner.Cond("Archived"); c != nil && c.Status == "True" {
		return
	}
	if owner.IsPhase && owner.Class != phaseClassOf(p.Actor) {
		return
	}
	e.Count("c09_paused_passes")
	if pr.Crashed || pr.Panic != nil || hasFault(p) {
		return
	}
	obs := observe(e, p, owner)
	// drift seen while paused
	for _, ph := range obs.phases {
		if !ph.Local {
			continue
		}
		for _, x := range ph.Objects {
			k, _ := storeKey(obs.store, x)
			if !obs.seen[k] {
				continue
			}
			st := obs.state[k]
			switch {
			case st == nil:
				e.Count("c09_paused_saw_missing_object")
			case !pkomodel.IsController(owner.Ref(), st, obs.strategy):
				e.Count("c09_paused_saw_foreign_owned_object")
			}
		}
	}
	if pr.Err != nil {
		// an error that no API response explains: every request of the pass succeeded (NotFound on reads is an answer, not a failure)
		apiFailure := false
		for _, r := range p.Requests {
			if r.Err != nil && !(r.Verb == "get" && apierrors.IsNotFound(r.Err)) {
				apiFailure = true
			}
		}
		if !apiFailure {
			// one such pass can be a retry the next pass resolves (e.g. the error kept from a lookup that preceded a successful
			// create); a paused owner that keeps failing on its own never reports Paused and never probes
			e.Count("c09_paused_pass_error_without_api_failure")
			if m.ownFailures == nil {
				m.ownFailures = map[string]int{}
			}
			k := owner.Kind + "/" + owner.NS + "/" + owner.Name
			m.ownFailures[k]++
			if m.ownFailures[k] == 3 {
				e.Report("C09:paused-owner-keeps-failing-on-its-own:"+errClass(pr.Err), fmt.Sprintf("%s %s/%s is paused; three passes in a row failed although every API request succeeded: %v", owner.Kind, owner.NS, owner.Name, pr.Err))
			}
		}
	} else if m.ownFailures != nil {
		delete(m.ownFailures, owner.Kind+"/"+owner.NS+"/"+owner.Name)
	}
	body, req := statusBody(p, owner)
	if req == nil {
		if pr.Err == nil && pr.Result.IsZero() {
			e.Report("C09:paused-pass-reports-nothing", fmt.Sprintf("%s %s/%s: paused pass ended without submitting a status", owner.Kind, owner.NS, owner.Name))
		}
		return
	}
	if pr.Err != nil {
		return // error path (preflight / collision) reports through its own condition
	}
	// Paused is reported
	pc := pkomodel.FindCond(body, "Paused")
	hasRemote := false
	for _, ph := range obs.phases {
		if !ph.Local {
			hasRemote = true
		}
	}
	if !hasRemote {
		if pc == nil || pc.Status != "True" {
			e.Report("C09:paused-not-reported", fmt.Sprintf("%s %s/%s is paused, submitted Paused=%+v", owner.Kind, owner.NS, owner.Name, pc))
		}
	} else if pc == nil {
		e.Report("C09:paused-not-reported", fmt.Sprintf("%s %s/%s is paused with delegated phases, submitted no Paused condition at all", owner.Kind, owner.NS, owner.Name))
	}
	// Available keeps being probed: it equals the reference evaluation of what the pass read
	// (a pass that stops before the phases are looked at - it waits for a previous revision to report its
	// revision number and asks to be requeued - has probed nothing yet)
	if len(obs.seen) == 0 && len(obs.phaseObj) == 0 && pr.Result.RequeueAfter > 0 {
		e.Count("c09_paused_pass_waiting_for_revision")
		return
	}
	av := pkomodel.FindCond(body, "Available")
	v := obs.allPass()
	if v == triUnknown {
		return
	}
	e.Count("c09_paused_available_compared")
	switch {
	case av == nil:
		e.Report("C09:available-not-reported-while-paused", fmt.Sprintf("%s %s/%s", owner.Kind, owner.NS, owner.Name))
	case (av.Status == "True") != (v == triPass):
		var fails []string
		for j := range obs.phases {
			if obs.phaseVerdict(j) == triFail {
				fails = append(fails, obs.phases[j].Name)
			}
		}
		e.Report("C09:available-wrong-while-paused", fmt.Sprintf("%s %s/%s submitted Available=%s (%s) but on the states read failing phases are [%s]", owner.Kind, owner.NS, owner.Name, av.Status, av.Reason, strings.Join(fails, ",")))
	}
}

func phaseClassOf(ctrl string) string {
	if ctrl == driver.CtrlRemotePhase {
		return driver.RemoteClass
	}
	return "default"
}

// errClass: the error message without names (letters and spaces of its first 60 characters).
func errClass(err error) string {
	var b strings.Builder
	for _, c := range err.Error() {
		if c >= 'a' && c <= 'z' || c >= 'A' && c <= 'Z' {
			b.WriteRune(c)
		} else if c == ' ' || c == ':' {
			b.WriteRune('_')
		}
		if b.Len() >= 60 {
			break
		}
	}
	return b.String()
}
