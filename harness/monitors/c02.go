package monitors

import (
	"fmt"
	"strings"

	"package-operator.run/internal/verifharness/pkomodel"
	"package-operator.run/internal/verifharness/scen"
	"package-operator.run/internal/verifharness/simkube"
)

// C02 - monotone handover (online, at every committed write).
type C02 struct{ Base }

func strategyForStore(e *scen.Env, s *simkube.Store) pkomodel.Strategy {
	if s == e.W.Target && e.W.Target != e.W.Store {
		return pkomodel.Annotation
	}
	return pkomodel.Native
}

func statusRevision(o Obj) int64 {
	if o == nil {
		return 0
	}
	ow := pkomodel.OwnerFrom(o)
	if ow == nil || ow.IsPhase {
		return 0
	}
	return ow.Revision
}

func (m *C02) OnRequest(e *scen.Env, req *simkube.Request) {
	if !req.IsWrite() || req.DryRun || req.Err != nil || !req.Changed {
		return
	}
	if isPKOKind(req.GVK.Kind) {
		if strings.HasSuffix(req.GVK.Kind, "ObjectSet") && req.Pre != nil && req.Post != nil &&
			pkomodel.Str(req.Pre, "metadata", "uid") == pkomodel.Str(req.Post, "metadata", "uid") {
			a, b := statusRevision(req.Pre), statusRevision(req.Post)
			if a != 0 && a != b {
				e.Report("C02:status-revision-changed", fmt.Sprintf("%s: status.revision %d -> %d by %s", keyStr(req.Key), a, b, req))
			}
			if a == 0 && b != 0 {
				e.Count("c02_revision_assigned")
			}
		}
		return
	}
	if req.Post == nil {
		return
	}
	st := strategyForStore(e, req.InStore())
	pkoWriter := req.Pass != nil && isSetController(req.Pass.Actor)
	var writer *pkomodel.Owner
	if pkoWriter {
		writer = scen.OwnerOfPass(req.Pass)
	}
	if !pkoWriter || writer == nil {
		return
	}
	pre, post := req.Pre, req.Post
	ctx := fmt.Sprintf("%s by %s %s/%s: %s", keyStr(req.Key), writer.Kind, writer.NS, writer.Name, req)
	if cs := pkomodel.Controllers(post, st); len(cs) > 1 {
		e.Report("C02:two-controllers-after-pko-write", fmt.Sprintf("%d controllers after write: %s", len(cs), ctx))
	}
	sameObject := pre != nil && pkomodel.Str(pre, "metadata", "uid") == pkomodel.Str(post, "metadata", "uid")
	if sameObject {
		a, ok1 := pkomodel.Revision(pre)
		b, ok2 := pkomodel.Revision(post)
		if ok1 && ok2 && b < a {
			e.Report("C02:recorded-revision-lowered", fmt.Sprintf("revision %d -> %d: %s", a, b, ctx))
		}
		if ok1 && ok2 && b > a {
			e.Count("c02_revision_raised")
		}
	}
	ctrlPost, hasPost := pkomodel.Controller(post, st)
	var ctrlPre pkomodel.Ref
	hasPre := false
	if pre != nil {
		ctrlPre, hasPre = pkomodel.Controller(pre, st)
	}
	if !hasPost || (hasPre && ctrlPre == ctrlPost) {
		return
	}
	// the controller changed (or was set on an existing object)
	if pre == nil {
		return // creation
	}
	e.Count("c02_handovers")
	if st == pkomodel.Annotation {
		e.Count("c02_handovers_annotation")
	} else {
		e.Count("c02_handovers_native")
	}
	if !(ctrlPost.Group == pkomodel.Group && ctrlPost.Kind == writer.Kind && ctrlPost.Name == writer.Name && ctrlPost.UID == writer.UID) {
		e.Report("C02:handover-to-someone-else", fmt.Sprintf("new controller %+v is not the writing owner: %s", ctrlPost, ctx))
		return
	}
	if revO, ok := ownerRevision(req.Pass, writer); ok {
		if a, parsable := pkomodel.Revision(pre); parsable && a > revO {
			e.Report("C02:took-control-of-newer-revision", fmt.Sprintf("object recorded revision %d, adopting owner has revision %d: %s", a, revO, ctx))
		}
		if b, parsable := pkomodel.Revision(post); parsable && b != revO {
			e.Report("C02:handover-records-wrong-revision", fmt.Sprintf("after handover the object records revision %d, owner has %d: %s", b, revO, ctx))
		}
	}
	if st == pkomodel.Native {
		have := map[string]bool{}
		for _, r := range pkomodel.NativeRefs(post) {
			have[r.UID] = true
		}
		for _, r := range pkomodel.NativeRefs(pre) {
			if !have[r.UID] {
				e.Report("C02:former-owner-dropped", fmt.Sprintf("owner %s/%s (%s) vanished from ownerReferences at handover: %s", r.Kind, r.Name, r.UID, ctx))
			}
		}
		if hasPre {
			e.Count("c02_former_controller_demoted")
		}
	}
}
