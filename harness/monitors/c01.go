package monitors

import (
	"fmt"

	"package-operator.run/internal/verifharness/driver"
	"package-operator.run/internal/verifharness/pkomodel"
	"package-operator.run/internal/verifharness/scen"
	"package-operator.run/internal/verifharness/simkube"
)

// C01 - collision protection. Per rollout pass and per managed key the pass read as existing
// and not controlled by the owner: evaluate the reference adoption predicate on the state the
// pass read; not permitted => zero write requests on the key in that pass and (unless the object
// belongs to a newer revision) Available=False/CollisionDetected in the status the pass submits;
// permitted => the pass's writes leave the owner as controller with the owner's revision recorded.
type C01 struct {
	Base
	// Decisions counts what was observed, keyed by class
	Decisions map[string]int
}

func NewC01() *C01 { return &C01{Decisions: map[string]int{}} }

type adoption struct {
	Permitted    bool
	NewerRev     bool // rev(S) > r(O): silently ignored, no refusal reported
	Unparsable   bool
	Reason       string
	HasCtrl      bool
	ByPrev       bool
	Forced       bool
	CP           string
	RevS, RevO   int64
	ViaRemote    bool
	PrevDeclared int
}

// ReferenceAdoption is the adoption predicate written from the property statement.
func ReferenceAdoption(p *simkube.Pass, owner *pkomodel.Owner, revO int64, po pkomodel.PhaseObject, s Obj, st pkomodel.Strategy) adoption {
	a := adoption{CP: po.CP, RevO: revO, PrevDeclared: len(owner.Previous)}
	rev, ok := pkomodel.Revision(s)
	a.RevS = rev
	if !ok {
		a.Unparsable = true
		a.Reason = "unparsable revision annotation"
		return a
	}
	if rev > revO {
		a.NewerRev = true
		a.Reason = "belongs to a newer revision"
		return a
	}
	ctrl, hasCtrl := pkomodel.Controller(s, st)
	a.HasCtrl = hasCtrl
	if forcedAdoptionEnv() || pkomodel.Labels(s)[pkomodel.PackageLabel] == "package-operator" {
		a.Forced = true
		a.CP = "None"
	}
	// declared previous revisions (those that exist) and their delegated phases
	if hasCtrl {
		phaseKind := "ObjectSetPhase"
		if owner.Cluster {
			phaseKind = "ClusterObjectSetPhase"
		}
		for _, name := range owner.Previous {
			prev := readPrevious(p, owner, name)
			if prev == nil {
				continue
			}
			if ctrl.Group == pkomodel.Group && ctrl.Kind == prev.Kind && ctrl.Name == prev.Name && ctrl.UID == prev.UID {
				a.ByPrev = true
			}
			for _, rp := range prev.RemotePhases {
				if ctrl.Group == pkomodel.Group && ctrl.Kind == phaseKind && ctrl.Name == rp.Name && ctrl.UID == string(rp.UID) {
					a.ByPrev, a.ViaRemote = true, true
				}
			}
		}
	}
	switch {
	case a.CP == "None":
		a.Permitted, a.Reason = true, "collisionProtection None"
	case a.CP == "IfNoController" && !hasCtrl:
		a.Permitted, a.Reason = true, "IfNoController and no controller"
	case a.ByPrev && rev < revO:
		a.Permitted, a.Reason = true, "controlled by declared previous revision with lower revision"
	case a.ByPrev:
		a.Reason = "controlled by previous revision but revision not lower"
	default:
		a.Reason = "not controlled by a declared previous revision"
	}
	return a
}

func (m *C01) OnPassEnd(e *scen.Env, pr driver.PassResult) {
	p := pr.Pass
	if p == nil || !isSetController(p.Actor) {
		return
	}
	owner := scen.OwnerOfPass(p)
	if owner == nil || owner.Deleting || owner.Archived || owner.Paused {
		return
	}
	if fc := owner.Cond("Archived"); fc != nil && fc.Status == "True" {
		return
	}
	revO, ok := ownerRevision(p, owner)
	if !ok {
		return
	}
	st := scen.StrategyOf(p.Actor)
	store := objectStore(e, p.Actor)
	faulty := pr.Crashed || pr.Panic != nil || hasFault(p)
	for _, ph := range passPhases(p, owner) {
		if !ph.Local {
			continue
		}
		for _, po := range ph.Objects {
			key, _ := storeKey(store, po)
			var lastRead *simkube.Request
			var writes []*simkube.Request
			sawWrite := false
			for _, r := range p.Requests {
				if r.InStore() != store || r.Key != key {
					continue
				}
				if r.Verb == "get" {
					if !sawWrite {
						lastRead = r
					}
					continue
				}
				if r.IsWrite() && !r.DryRun {
					sawWrite = true
					writes = append(writes, r)
				}
			}
			var s Obj
			if lastRead == nil || lastRead.Err != nil || lastRead.Post == nil {
				// The pass wrote without ever having seen the object. If the only reads were answered by the label-filtered
				// dynamic cache (which does not show objects of third parties), nothing told the pass that the object is absent:
				// the decision is judged on what was stored when its first write arrived.
				askedAPI := false
				for _, r := range p.Requests {
					if r.InStore() == store && r.Key == key && r.Verb == "get" && r.Role != "dyncache" {
						askedAPI = true
					}
				}
				if askedAPI || len(writes) == 0 || writes[0].Pre == nil || writes[0].Err != nil {
					continue
				}
				e.Count("c01_blind_writes_on_existing_objects")
				s = writes[0].Pre
			} else {
				s = lastRead.Post
			}
			if pkomodel.IsController(owner.Ref(), s, st) {
				continue
			}
			a := ReferenceAdoption(p, owner, revO, po, s, st)
			class := fmt.Sprintf("cp=%s strategy=%d permitted=%v newer=%v forced=%v hasCtrl=%v byPrev=%v viaRemote=%v", a.CP, st, a.Permitted, a.NewerRev, a.Forced, a.HasCtrl, a.ByPrev, a.ViaRemote)
			m.Decisions[class]++
			e.Count("c01_decisions")
			ctx := fmt.Sprintf("%s %s/%s rev %d on %s (recorded rev %d, %s, cp %s)", owner.Kind, owner.NS, owner.Name, revO, keyStr(key), a.RevS, a.Reason, a.CP)
			if !a.Permitted {
				if a.NewerRev {
					e.Count("c01_ignored_newer_revision")
				} else {
					e.Count("c01_refusals")
				}
				if len(writes) > 0 {
					e.Report(fmt.Sprintf("C01:write-on-unadoptable-object:cp=%s:%s", a.CP, reasonClass(a)),
						fmt.Sprintf("adoption not permitted but the pass issued %d write(s), first %s: %s", len(writes), writes[0], ctx))
				}
				if !a.NewerRev && !a.Unparsable && !faulty {
					body, req := statusBody(p, owner)
					if req == nil {
						e.Report("C01:refusal-not-reported:no-status-write", "refused adoption but the pass submitted no status: "+ctx)
					} else if c := pkomodel.FindCond(body, "Available"); c == nil || c.Status != "False" || c.Reason != "CollisionDetected" {
						e.Report("C01:refusal-not-reported:wrong-condition", fmt.Sprintf("refused adoption but submitted Available=%+v: %s", c, ctx))
					}
				}
				continue
			}
			e.Count("c01_adoptions_permitted")
			if faulty {
				continue
			}
			var lastOK *simkube.Request
			failed := false
			for _, w := range writes {
				if w.Err == nil {
					lastOK = w
				} else {
					failed = true
				}
			}
			switch {
			case lastOK == nil && failed:
				// the write was attempted and rejected by the API: nothing to conclude
			case lastOK == nil:
				if pr.Err != nil {
					// the pass ended early for another reason before reaching the write? it had read the object, so the decision was due
					e.Report(fmt.Sprintf("C01:permitted-adoption-not-carried-out:cp=%s:%s", a.CP, reasonClass(a)),
						fmt.Sprintf("adoption permitted but no write was issued (pass error: %v): %s", pr.Err, ctx))
				} else {
					e.Report(fmt.Sprintf("C01:permitted-adoption-not-carried-out:cp=%s:%s", a.CP, reasonClass(a)),
						"adoption permitted but no write was issued: "+ctx)
				}
			default:
				post := lastOK.Post
				rev, _ := pkomodel.Revision(post)
				if post == nil || !pkomodel.IsController(owner.Ref(), post, st) || rev != revO {
					e.Report(fmt.Sprintf("C01:adoption-incomplete:cp=%s", a.CP),
						fmt.Sprintf("after the pass's write the owner is controller=%v, recorded revision %d (want %d): %s",
							post != nil && pkomodel.IsController(owner.Ref(), post, st), rev, revO, ctx))
				} else {
					e.Count("c01_adoptions_done")
				}
			}
		}
	}
}

func reasonClass(a adoption) string {
	switch {
	case a.Unparsable:
		return "unparsable-revision"
	case a.NewerRev:
		return "newer-revision"
	case a.Forced:
		return "forced"
	case a.ByPrev && a.ViaRemote:
		return "previous-remote-phase"
	case a.ByPrev:
		return "previous"
	case !a.HasCtrl:
		return "no-controller"
	default:
		return "foreign-controller"
	}
}
