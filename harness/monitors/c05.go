package monitors

import (
	"fmt"
	"reflect"
	"sort"
	"strings"

	"package-operator.run/internal/verifharness/pkomodel"
	"package-operator.run/internal/verifharness/scen"
	"package-operator.run/internal/verifharness/simkube"
)

// C05 - deletes only what it controls, pinned to the inspected version (online).
type C05 struct{ Base }

func withoutVolatile(o Obj) Obj {
	b := deepCopyObj(o)
	m, _ := b["metadata"].(map[string]any)
	if m != nil {
		delete(m, "resourceVersion")
		delete(m, "managedFields")
		delete(m, "generation")
	}
	return b
}

func deepCopyObj(o Obj) Obj {
	if o == nil {
		return nil
	}
	return deepCopyAny(o).(Obj)
}

func deepCopyAny(v any) any {
	switch t := v.(type) {
	case map[string]any:
		m := make(map[string]any, len(t))
		for k, x := range t {
			m[k] = deepCopyAny(x)
		}
		return m
	case []any:
		l := make([]any, len(t))
		for i, x := range t {
			l[i] = deepCopyAny(x)
		}
		return l
	}
	return v
}

// refsKey renders a reference list as a sorted set for comparison.
func refsKey(refs []pkomodel.Ref) []string {
	var out []string
	for _, r := range refs {
		out = append(out, fmt.Sprintf("%s/%s/%s/%s/%v", r.Group, r.Kind, r.Name, r.UID, r.Controller))
	}
	sort.Strings(out)
	return out
}

// onlyOwnReferenceAndCacheLabelDropped: effect(pre -> post) is a subset of {drop owner's entry, drop cache label}.
func onlyOwnReferenceAndCacheLabelDropped(owner pkomodel.Ref, pre, post Obj, st pkomodel.Strategy) string {
	a, b := withoutVolatile(pre), withoutVolatile(post)
	// compare references as sets
	var wantRefs []pkomodel.Ref
	for _, r := range pkomodel.Refs(pre, st) {
		if r.Group == owner.Group && r.Kind == owner.Kind && r.Name == owner.Name && r.UID == owner.UID {
			continue
		}
		wantRefs = append(wantRefs, r)
	}
	gotRefs := pkomodel.Refs(post, st)
	preAll := refsKey(pkomodel.Refs(pre, st))
	if !reflect.DeepEqual(refsKey(wantRefs), refsKey(gotRefs)) && !reflect.DeepEqual(preAll, refsKey(gotRefs)) {
		return fmt.Sprintf("owner references changed beyond dropping the own entry: before %v after %v", preAll, refsKey(gotRefs))
	}
	for _, o := range []Obj{a, b} {
		m, _ := o["metadata"].(map[string]any)
		if m == nil {
			continue
		}
		delete(m, "ownerReferences")
		if ann, ok := m["annotations"].(map[string]any); ok {
			delete(ann, pkomodel.OwnersAnnotation)
			if len(ann) == 0 {
				delete(m, "annotations")
			}
		}
		if l, ok := m["labels"].(map[string]any); ok {
			delete(l, pkomodel.CacheLabel)
			if len(l) == 0 {
				delete(m, "labels")
			}
		}
	}
	if !reflect.DeepEqual(a, b) {
		return "fields other than the own owner reference and the cache label changed"
	}
	return ""
}

func (m *C05) OnRequest(e *scen.Env, req *simkube.Request) {
	if !req.IsWrite() || req.DryRun || req.Pass == nil || !isSetController(req.Pass.Actor) {
		return
	}
	owner := scen.OwnerOfPass(req.Pass)
	if owner == nil {
		return
	}
	if isPKOKind(req.GVK.Kind) {
		// the only PKO objects an ObjectSet deletes are its delegated phases; with orphan propagation nothing is deleted at all
		if req.Verb == "delete" && strings.HasSuffix(req.GVK.Kind, "ObjectSetPhase") && !owner.IsPhase {
			e.Count("c05_phase_object_deletes")
			if owner.HasFinalizer("orphan") {
				e.Report("C05:delegated-phase-deleted-despite-orphan-propagation", fmt.Sprintf("%s %s/%s: %s", owner.Kind, owner.NS, owner.Name, req))
			}
			if !(owner.Deleting || owner.Archived) {
				e.Report("C05:delegated-phase-deleted-outside-teardown", fmt.Sprintf("%s %s/%s: %s", owner.Kind, owner.NS, owner.Name, req))
			}
		}
		return
	}
	st := scen.StrategyOf(req.Pass.Actor)
	teardown := owner.Deleting || owner.Archived
	orphan := owner.HasFinalizer("orphan")
	ctx := fmt.Sprintf("%s %s/%s: %s", owner.Kind, owner.NS, owner.Name, req)
	if req.Verb == "delete" {
		e.Count("c05_deletes")
		if !teardown {
			e.Report("C05:delete-outside-teardown", ctx)
		}
		if orphan {
			e.Report("C05:delete-despite-orphan-propagation", ctx)
		}
		if req.Precond.UID == nil || req.Precond.ResourceVersion == nil {
			e.Report("C05:delete-without-both-preconditions", ctx)
		} else {
			var last *simkube.Request
			for _, r := range req.Pass.Requests {
				if r == req {
					break
				}
				if r.Verb == "get" && r.Key == req.Key && r.InStore() == req.InStore() && r.Err == nil && r.Post != nil {
					last = r
				}
			}
			if last == nil {
				e.Report("C05:delete-without-inspection", ctx)
			} else {
				uid, rv := pkomodel.Str(last.Post, "metadata", "uid"), pkomodel.Str(last.Post, "metadata", "resourceVersion")
				if string(*req.Precond.UID) != uid || *req.Precond.ResourceVersion != rv {
					e.Report("C05:preconditions-not-from-inspected-version", fmt.Sprintf("inspected uid=%s rv=%s, delete pinned to uid=%s rv=%s: %s", uid, rv, *req.Precond.UID, *req.Precond.ResourceVersion, ctx))
				}
				if !pkomodel.IsController(owner.Ref(), last.Post, st) {
					e.Report("C05:delete-of-object-not-seen-as-controlled", ctx)
				}
			}
		}
		switch {
		case req.Err != nil:
			e.Count("c05_deletes_rejected")
			if req.Pre != nil && req.Precond.UID != nil && string(*req.Precond.UID) != pkomodel.Str(req.Pre, "metadata", "uid") {
				e.Count("c05_delete_rejected_by_uid")
			} else if req.Pre != nil {
				e.Count("c05_delete_rejected_by_resourceversion")
			}
		case req.Pre != nil && !pkomodel.IsController(owner.Ref(), req.Pre, st):
			e.Report("C05:deleted-object-not-controlled", "the object deleted was not controlled by the owner at that instant: "+ctx)
		default:
			e.Count("c05_deletes_of_controlled_objects")
		}
		return
	}
	if !teardown {
		return
	}
	// teardown writes other than deletes
	if orphan {
		e.Report("C05:write-despite-orphan-propagation", ctx)
		return
	}
	if req.Err != nil || req.Pre == nil {
		return
	}
	switch {
	case pkomodel.IsController(owner.Ref(), req.Pre, st):
		// not a case the property speaks about
	case pkomodel.IsOwner(owner.Ref(), req.Pre, st):
		e.Count("c05_co_owner_patches")
		if req.Post == nil {
			e.Report("C05:co-owned-object-removed", ctx)
		} else if d := onlyOwnReferenceAndCacheLabelDropped(owner.Ref(), req.Pre, req.Post, st); d != "" {
			e.Report("C05:co-owned-object-modified-beyond-own-reference", d+": "+ctx)
		}
	default:
		if req.Changed {
			e.Report("C05:write-on-foreign-object-in-teardown", ctx)
		}
	}
}
