package monitors

import (
	"fmt"
	"reflect"
	"sort"
	"strings"

	"package-operator.run/internal/verifharness/driver"
	"package-operator.run/internal/verifharness/pkomodel"
	"package-operator.run/internal/verifharness/scen"
	"package-operator.run/internal/verifharness/simkube"
)

func isDeploymentController(ctrl string) bool {
	return ctrl == driver.CtrlObjectDeployment || ctrl == driver.CtrlClusterObjectDepl
}

// deploymentOfPass: the ObjectDeployment as read by the pass.
func deploymentOfPass(p *simkube.Pass) *pkomodel.Deployment {
	if p == nil {
		return nil
	}
	if d, ok := p.Attrs["deployment"].(*pkomodel.Deployment); ok {
		return d
	}
	for _, r := range p.Requests {
		if r.Verb == "get" && strings.HasSuffix(r.GVK.Kind, "ObjectDeployment") && r.Key.Name == p.Key.Name && r.Err == nil && r.Post != nil {
			d := pkomodel.DeploymentFrom(r.Post)
			p.Attrs["deployment"] = d
			return d
		}
	}
	return nil
}

// listedSets: the ObjectSets the pass listed, ascending by revision.
func listedSets(p *simkube.Pass) ([]*pkomodel.Owner, bool) {
	var items []any
	found := false
	for _, r := range p.Requests {
		if r.Verb == "list" && strings.HasSuffix(r.GVK.Kind, "ObjectSet") && r.Err == nil {
			items, _ = r.Post["items"].([]any)
			found = true
			break
		}
	}
	var out []*pkomodel.Owner
	for _, it := range items {
		if m, ok := it.(map[string]any); ok {
			if _, has := m["kind"]; !has {
				m["kind"] = "ObjectSet"
			}
			out = append(out, pkomodel.OwnerFrom(m))
		}
	}
	sort.SliceStable(out, func(i, j int) bool { return out[i].Revision < out[j].Revision })
	return out, found
}

func ownerObjects(o *pkomodel.Owner) map[string]bool {
	out := map[string]bool{}
	for _, ph := range o.Phases {
		for _, x := range ph.Objects {
			out[fmt.Sprintf("%s/%s/%s/%s", x.GVK.Group, x.GVK.Kind, x.NS, x.Name)] = true
		}
	}
	return out
}

// C07 - one ObjectSet per template, unique increasing revisions.
type C07 struct {
	Base
	epoch   map[string]int            // deployment uid -> template epoch
	creates map[string]map[int]string // deployment uid -> epoch -> created ObjectSet
	stale   map[string]bool           // ObjectSets created from a list that missed an existing revision
}

func NewC07() *C07 { return &C07{epoch: map[string]int{}, creates: map[string]map[int]string{}} }

func (m *C07) OnRequest(e *scen.Env, req *simkube.Request) {
	if !req.IsWrite() || req.DryRun || req.Err != nil {
		return
	}
	kind := req.GVK.Kind
	switch {
	case strings.HasSuffix(kind, "ObjectDeployment") && req.Changed && req.Post != nil:
		d := pkomodel.DeploymentFrom(req.Post)
		if d == nil {
			return
		}
		// a template edit is any change of the stored template document (an explicitly empty list instead of an
		// absent one is an edit too: the template hash, like Kubernetes' pod-template-hash, tells them apart)
		rawTemplate := func(o Obj) any {
			sp, _ := o["spec"].(map[string]any)
			tm, _ := sp["template"].(map[string]any)
			return tm["spec"]
		}
		var before any
		if req.Pre != nil {
			if pd := pkomodel.DeploymentFrom(req.Pre); pd != nil && pd.UID == d.UID {
				before = rawTemplate(req.Pre)
			}
		}
		if !reflect.DeepEqual(before, rawTemplate(req.Post)) {
			m.epoch[d.UID]++
			e.Count("c07_template_epochs")
		}
	case (kind == "ObjectSet" || kind == "ClusterObjectSet") && req.Verb == "create" && req.Pass != nil && isDeploymentController(req.Pass.Actor):
		d := deploymentOfPass(req.Pass)
		if d == nil {
			return
		}
		e.Count("c07_objectset_creates")
		created := pkomodel.OwnerFrom(req.Post)
		ctx := fmt.Sprintf("%s %s/%s created %s: %s", d.Kind, d.NS, d.Name, created.Name, req)
		if d.Paused {
			e.Report("C07:create-while-paused", ctx)
		}
		if len(d.Template.Spec.Phases) == 0 {
			e.Report("C07:create-from-empty-template", ctx)
		}
		sets, listed := listedSets(req.Pass)
		if !listed {
			e.Report("C07:create-without-listing-revisions", ctx)
		}
		var names []string
		for _, s := range sets {
			names = append(names, s.Name)
			if s.Revision == 0 {
				e.Report("C07:create-while-revision-unreported", fmt.Sprintf("existing ObjectSet %s has not reported its revision: %s", s.Name, ctx))
			}
		}
		if !reflect.DeepEqual(pkomodel.TemplateSpecOf(req.Post), pkomodel.Canon(d.Template.Spec)) {
			e.Report("C07:created-spec-differs-from-template", ctx)
		}
		sort.Strings(names)
		prev := append([]string{}, created.Previous...)
		sort.Strings(prev)
		if strings.Join(names, ",") != strings.Join(prev, ",") {
			e.Report("C07:previous-does-not-name-all-listed", fmt.Sprintf("previous=%v, listed ObjectSets=%v: %s", prev, names, ctx))
		}
		// "names every existing ObjectSet of the deployment": compare with the store at this instant
		inPrev := map[string]bool{}
		for _, p := range prev {
			inPrev[p] = true
		}
		for _, k := range req.InStore().KeysLocked() {
			if k.Kind != req.Key.Kind || k.Namespace != req.Key.Namespace || k.Name == req.Key.Name || inPrev[k.Name] {
				continue
			}
			o := pkomodel.OwnerFrom(req.InStore().PeekLocked(k))
			if o == nil {
				continue
			}
			match := len(d.Selector) > 0
			for sk, sv := range d.Selector {
				if o.Labels[sk] != sv {
					match = false
				}
			}
			if !match {
				continue
			}
			if m.stale == nil {
				m.stale = map[string]bool{}
			}
			m.stale[created.Name] = true
			e.Report("C07:previous-omits-existing-objectset:not-yet-visible-in-cache", fmt.Sprintf("existing ObjectSet %s (revision %d) was not in the list the pass read and is missing from previous=%v: %s", o.Name, o.Revision, prev, ctx))
		}
		ep := m.epoch[d.UID]
		if m.creates[d.UID] == nil {
			m.creates[d.UID] = map[int]string{}
		}
		if other, dup := m.creates[d.UID][ep]; dup {
			// a second ObjectSet for the same template epoch is only legitimate when the first one no longer exists
			k := req.Key
			k.Name = other
			if view(req, e.W.Store, k) != nil {
				e.Report("C07:second-objectset-for-same-template", fmt.Sprintf("%s was already created for this template (epoch %d) and still exists: %s", other, ep, ctx))
			}
		}
		m.creates[d.UID][ep] = created.Name
	case (kind == "ObjectSet" || kind == "ClusterObjectSet") && req.Pre != nil && req.Post != nil:
		a, b := statusRevision(req.Pre), statusRevision(req.Post)
		if a == 0 && b != 0 {
			set := pkomodel.OwnerFrom(req.Post)
			e.Count("c07_revisions_assigned")
			for _, pn := range set.Previous {
				k := req.Key
				k.Name = pn
				if po := pkomodel.OwnerFrom(view(req, e.W.Store, k)); po != nil && po.Revision >= b {
					e.Report("C07:revision-not-greater-than-previous", fmt.Sprintf("%s got revision %d, previous %s has %d", set.Name, b, pn, po.Revision))
				}
			}
			// pairwise distinct among the sets of the same deployment
			dep := set.Labels["package-operator.run/object-deployment"]
			if dep != "" {
				for _, k := range req.InStore().KeysLocked() {
					if k.Kind != req.Key.Kind || k.Namespace != req.Key.Namespace || k.Name == req.Key.Name {
						continue
					}
					o := pkomodel.OwnerFrom(req.InStore().PeekLocked(k))
					if o != nil && o.Labels["package-operator.run/object-deployment"] == dep && o.Revision == b {
						sig := "C07:duplicate-revision-number"
						if m.stale[set.Name] || m.stale[o.Name] {
							sig += ":after-create-from-stale-list"
						}
						e.Report(sig, fmt.Sprintf("%s and %s both have revision %d", set.Name, o.Name, b))
					}
				}
			}
		}
	}
}

// C08 - nothing serving is archived or deleted.
type C08 struct {
	Base
	// trustedPausedAvailable: archived revision -> newer revision whose Available=True was reported while it was paused
	// (probing without taking control) and which did not control everything the archived revision controlled
	trustedPausedAvailable map[string]string
	// seen: the last stored state of every revision ever written (history pruning may remove an intermediate revision
	// before an older one has finished its teardown)
	seen map[string]*pkomodel.Owner
	// createdAt / archivedAt: commit sequence at which a revision was created / was marked archived by the deployment
	createdAt, archivedAt map[string]int64
}

func (m *C08) OnRequest(e *scen.Env, req *simkube.Request) {
	if !req.IsWrite() || req.DryRun || req.Err != nil || req.Pass == nil {
		return
	}
	kind := req.GVK.Kind
	isSet := kind == "ObjectSet" || kind == "ClusterObjectSet"
	if isSet && req.Post != nil {
		if o := pkomodel.OwnerFrom(req.Post); o != nil {
			if m.seen == nil {
				m.seen = map[string]*pkomodel.Owner{}
			}
			m.seen[o.NS+"/"+o.Name] = o
			if m.createdAt == nil {
				m.createdAt, m.archivedAt = map[string]int64{}, map[string]int64{}
			}
			if req.Verb == "create" {
				m.createdAt[o.NS+"/"+o.Name] = req.StoreSeq
			}
			if pre := pkomodel.OwnerFrom(req.Pre); pre != nil && !pre.Archived && o.Archived {
				m.archivedAt[o.NS+"/"+o.Name] = req.StoreSeq
			}
		}
	}
	if isDeploymentController(req.Pass.Actor) && isSet {
		d := deploymentOfPass(req.Pass)
		sets, _ := listedSets(req.Pass)
		if d == nil {
			return
		}
		idx := -1
		for i, s := range sets {
			if s.Name == req.Key.Name {
				idx = i
			}
		}
		switch {
		case req.Verb == "update" && req.Pre != nil && req.Post != nil:
			pre, post := pkomodel.OwnerFrom(req.Pre), pkomodel.OwnerFrom(req.Post)
			if pre.Archived || !post.Archived {
				return
			}
			e.Count("c08_archivals")
			ctx := fmt.Sprintf("%s %s/%s archives %s (revision %d): %s", d.Kind, d.NS, d.Name, pre.Name, pre.Revision, req)
			if idx < 0 {
				e.Report("C08:archived-unlisted-revision", ctx)
				return
			}
			r := sets[idx]
			if c := r.Cond("Paused"); c == nil || c.Status != "True" {
				e.Report("C08:archived-before-pause-confirmed", fmt.Sprintf("listed status has Paused=%+v: %s", c, ctx))
			}
			if idx == len(sets)-1 {
				e.Report("C08:newest-revision-archived", ctx)
				return
			}
			newerAvailable := false
			for _, s := range sets[idx+1:] {
				if c := s.Cond("Available"); c != nil && c.Status == "True" {
					newerAvailable = true
				}
			}
			if newerAvailable {
				e.Count("c08_archival_case_newer_available")
				for _, s := range sets[idx+1:] {
					av, pa := s.Cond("Available"), s.Cond("Paused")
					if av == nil || av.Status != "True" || pa == nil || pa.Status != "True" {
						continue
					}
					has := map[string]bool{}
					for _, co := range s.ControllerOf {
						has[fmt.Sprintf("%s/%s/%s/%s", co.Group, co.Kind, co.Namespace, co.Name)] = true
					}
					listed := ownerObjects(s)
					for _, co := range r.ControllerOf {
						id := fmt.Sprintf("%s/%s/%s/%s", co.Group, co.Kind, co.Namespace, co.Name)
						if listed[id] && !has[id] {
							if m.trustedPausedAvailable == nil {
								m.trustedPausedAvailable = map[string]string{}
							}
							m.trustedPausedAvailable[r.Name] = s.Name
						}
					}
				}
				return
			}
			rAvail := false
			if c := r.Cond("Available"); c != nil && c.Status == "True" {
				rAvail = true
			}
			next := ownerObjects(sets[idx+1])
			var overlap []string
			for _, co := range r.ControllerOf {
				id := fmt.Sprintf("%s/%s/%s/%s", co.Group, co.Kind, co.Namespace, co.Name)
				if next[id] {
					overlap = append(overlap, id)
				}
			}
			if rAvail || len(overlap) > 0 {
				e.Report("C08:archived-while-still-serving", fmt.Sprintf("no newer revision is Available; revision available=%v, controls %v which the next revision %s contains: %s", rAvail, overlap, sets[idx+1].Name, ctx))
			} else {
				e.Count("c08_archival_case_unavailable_and_disjoint")
			}
		case req.Verb == "delete":
			e.Count("c08_prunings")
			ctx := fmt.Sprintf("%s %s/%s deletes %s: %s", d.Kind, d.NS, d.Name, req.Key.Name, req)
			if idx < 0 {
				e.Report("C08:pruned-unlisted-revision", ctx)
				return
			}
			if idx == len(sets)-1 {
				e.Report("C08:pruned-newest-revision", ctx)
				return
			}
			nPrev := len(sets) - 1
			allowed := nPrev - int(d.HistoryLimit)
			if idx >= allowed {
				e.Report("C08:pruned-revision-within-history-limit", fmt.Sprintf("revision rank %d of %d previous revisions, limit %d: %s", idx, nPrev, d.HistoryLimit, ctx))
			}
		}
		return
	}
	// (iii) an object listed by the newest non-archived revision is never deleted by the teardown of an older one
	if req.Verb == "delete" && isSetController(req.Pass.Actor) && !isPKOKind(kind) {
		owner := scen.OwnerOfPass(req.Pass)
		if owner == nil || owner.IsPhase {
			return
		}
		dep := owner.Labels["package-operator.run/object-deployment"]
		if dep == "" {
			return
		}
		var newest *pkomodel.Owner
		var siblings []*pkomodel.Owner
		st := e.W.Store
		var keys []simkube.Key
		if req.InStore() == st {
			keys = st.KeysLocked()
		} else {
			for k := range st.Snapshot() {
				keys = append(keys, k)
			}
		}
		for _, k := range keys {
			if k.Kind != owner.Kind || k.Namespace != owner.NS {
				continue
			}
			o := pkomodel.OwnerFrom(view(req, st, k))
			if o == nil || o.Labels["package-operator.run/object-deployment"] != dep {
				continue
			}
			siblings = append(siblings, o)
			if o.Archived || o.Deleting {
				continue
			}
			if newest == nil || o.Revision > newest.Revision {
				newest = o
			}
		}
		if newest == nil || newest.Name == owner.Name {
			return
		}
		e.Count("c08_teardown_deletes_with_newer_revision_alive")
		id := fmt.Sprintf("%s/%s/%s/%s", req.Key.Group, req.Key.Kind, req.Key.Namespace, req.Key.Name)
		// a revision in between that was rolled out successfully without the object dropped it on purpose:
		// deleting it then completes that handover, the newest revision re-adds it
		inStore := map[string]bool{}
		for _, sib := range siblings {
			inStore[sib.NS+"/"+sib.Name] = true
		}
		for k, o := range m.seen {
			if !inStore[k] && o.Kind == owner.Kind && o.NS == owner.NS && o.Labels["package-operator.run/object-deployment"] == dep {
				siblings = append(siblings, o) // pruned meanwhile
			}
		}
		for _, sib := range siblings {
			if sib.Revision > owner.Revision && sib.Revision < newest.Revision && !ownerObjects(sib)[id] {
				if c := sib.Cond("Succeeded"); c != nil && c.Status == "True" {
					e.Count("c08_object_dropped_by_successful_intermediate_revision")
					return
				}
				if c := sib.Cond("Available"); c != nil && c.Status == "True" {
					e.Count("c08_object_dropped_by_successful_intermediate_revision")
					return
				}
			}
		}
		if at, ok := m.archivedAt[owner.NS+"/"+owner.Name]; ok && m.createdAt[newest.NS+"/"+newest.Name] > at {
			// the revision that lists the object did not exist yet when the archival was decided: the template was edited
			// between the decision and this teardown
			e.Count("c08_object_listed_again_by_revision_created_after_archival")
			return
		}
		if ownerObjects(newest)[id] {
			sig := "C08:deleted-object-listed-by-current-revision"
			reported := false
			for _, co := range owner.ControllerOf {
				if co.Group == req.Key.Group && co.Kind == req.Key.Kind && co.Name == req.Key.Name && (co.Namespace == req.Key.Namespace || co.Namespace == "") {
					reported = true
				}
			}
			if owner.Deleting && !owner.Archived {
				// the outgoing revision was never archived: history pruning deleted it while it was active
				sig += ":revision-pruned-while-not-archived"
			} else if by := m.trustedPausedAvailable[owner.Name]; by != "" {
				// archival trusted the Available=True a newer revision reported while paused: a paused revision probes the
				// objects it lists without taking control of them
				sig += ":archived-on-available-reported-by-paused-revision-not-controlling-the-object"
			} else if !reported {
				// the outgoing revision controlled the object but its status.controllerOf did not say so
				// (the list stops at the first failing phase), so the archival decision could not see the overlap
				sig += ":object-missing-from-reported-controllerOf"
			}
			e.Report(sig, fmt.Sprintf("%s (revision %d, archived=%v deleting=%v conds=%+v) deleted %s which the newest revision %s (revision %d, paused=%v conds=%+v controllerOf=%v) lists: %s", owner.Name, owner.Revision, owner.Archived, owner.Deleting, owner.Conditions, keyStr(req.Key), newest.Name, newest.Revision, newest.Paused, newest.Conditions, newest.ControllerOf, req))
		}
	}
}

// C09D - pause propagation ObjectDeployment -> revisions.
type C09D struct{ Base }

func (m *C09D) OnRequest(e *scen.Env, req *simkube.Request) {
	if !req.IsWrite() || req.DryRun || req.Pass == nil || !isDeploymentController(req.Pass.Actor) {
		return
	}
	kind := req.GVK.Kind
	if kind != "ObjectSet" && kind != "ClusterObjectSet" {
		return
	}
	d := deploymentOfPass(req.Pass)
	if d == nil {
		return
	}
	ctx := fmt.Sprintf("%s %s/%s (paused=%v): %s", d.Kind, d.NS, d.Name, d.Paused, req)
	if d.Paused {
		switch {
		case req.Verb == "create":
			e.Report("C09:paused-deployment-created-revision", ctx)
		case req.Verb == "delete":
			e.Report("C09:paused-deployment-deleted-revision", ctx)
		case req.Verb == "update" && req.Pre != nil && req.Post != nil && req.Err == nil:
			if pre, post := pkomodel.OwnerFrom(req.Pre), pkomodel.OwnerFrom(req.Post); !pre.Archived && post.Archived {
				e.Report("C09:paused-deployment-archived-revision", ctx)
			}
		}
		return
	}
	if req.Verb == "update" && req.Pre != nil && req.Post != nil && req.Err == nil {
		pre, post := pkomodel.OwnerFrom(req.Pre), pkomodel.OwnerFrom(req.Post)
		if pre.Paused && !post.Paused && !post.Archived {
			e.Count("c09d_revisions_released")
			if pre.Annotations[pkomodel.PausedByParentAnnot] != "true" {
				e.Report("C09:released-revision-not-paused-by-parent", fmt.Sprintf("%s was paused without the paused-by-parent mark: %s", pre.Name, ctx))
			}
		}
	}
}

func (m *C09D) OnPassEnd(e *scen.Env, pr driver.PassResult) {
	p := pr.Pass
	if p == nil || !isDeploymentController(p.Actor) || pr.Err != nil || pr.Crashed || pr.Panic != nil || hasFault(p) {
		return
	}
	d := deploymentOfPass(p)
	if d == nil {
		return
	}
	sets, listed := listedSets(p)
	if !listed {
		return
	}
	for _, s := range sets {
		if s.Revision == 0 {
			return // the controller delays every action until all revisions report their number
		}
	}
	kind := "ObjectSet"
	if d.Cluster {
		kind = "ClusterObjectSet"
	}
	if d.Paused {
		e.Count("c09d_paused_deployment_passes")
	}
	for _, s := range sets {
		if s.Archived {
			continue
		}
		cur := pkomodel.OwnerFrom(e.W.Store.Peek(scen.PKO(kind).GroupKind(), d.NS, s.Name))
		if cur == nil || cur.Archived {
			continue
		}
		if d.Paused {
			if !cur.Paused || cur.Annotations[pkomodel.PausedByParentAnnot] != "true" {
				e.Report("C09:revision-not-paused-by-paused-deployment", fmt.Sprintf("%s %s/%s is paused but after its pass revision %s has lifecycle paused=%v mark=%q", d.Kind, d.NS, d.Name, s.Name, cur.Paused, cur.Annotations[pkomodel.PausedByParentAnnot]))
			} else {
				e.Count("c09d_revisions_paused_by_parent")
			}
		} else if s.Paused && s.Annotations[pkomodel.PausedByParentAnnot] == "true" {
			if cur.Paused && cur.Annotations[pkomodel.PausedByParentAnnot] == "true" {
				e.Report("C09:revision-not-released-on-unpause", fmt.Sprintf("%s %s/%s is unpaused but revision %s is still paused by parent", d.Kind, d.NS, d.Name, s.Name))
			}
		} else if s.Paused && cur.Paused {
			e.Count("c09d_user_paused_revision_left_alone")
		}
	}
}
