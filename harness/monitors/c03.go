package monitors

import (
	"fmt"
	"regexp"

	"package-operator.run/internal/verifharness/driver"
	"package-operator.run/internal/verifharness/pkomodel"
	"package-operator.run/internal/verifharness/refprobe"
	"package-operator.run/internal/verifharness/scen"
	"package-operator.run/internal/verifharness/simkube"
)

// C03 - ordered, probe-gated rollout (offline per rollout pass of an ObjectSet).
type C03 struct{ Base }

var phaseFailedRe = regexp.MustCompile(`^Phase "([^"]*)" failed`)

type tri int

const (
	triFail tri = iota
	triPass
	triUnknown
)

// objectPasses: reference evaluation of the owner's probes on an observed state (nil = absent).
func objectPasses(owner *pkomodel.Owner, state Obj) tri {
	if state == nil {
		return triFail
	}
	pass, _, unspecified := refprobe.Eval(owner.Probes, state)
	if unspecified {
		return triUnknown
	}
	if pass {
		return triPass
	}
	return triFail
}

func phaseObjectName(owner *pkomodel.Owner, phase string) string { return owner.Name + "-" + phase }

func delegatedPhasePasses(state Obj) tri {
	if state == nil {
		return triFail
	}
	c := pkomodel.FindCond(state, "Available")
	if c == nil || c.ObservedGeneration != pkomodel.Generation(state) {
		return triFail
	}
	if c.Status == "True" {
		return triPass
	}
	return triFail
}

func (m *C03) OnPassEnd(e *scen.Env, pr driver.PassResult) {
	p := pr.Pass
	if p == nil || (p.Actor != driver.CtrlObjectSet && p.Actor != driver.CtrlClusterObjectSet) {
		return
	}
	owner := scen.OwnerOfPass(p)
	if owner == nil || owner.Deleting || owner.Archived || owner.Paused {
		return
	}
	if c := owner.Cond("Archived"); c != nil && c.Status == "True" {
		return
	}
	phases := passPhases(p, owner)
	store := e.W.Store
	keyPhase := map[simkube.Key]int{}
	for _, ph := range phases {
		if ph.Local {
			for _, po := range ph.Objects {
				k, _ := storeKey(store, po)
				keyPhase[k] = ph.Index
			}
		}
	}
	phaseKind := "ObjectSetPhase"
	if owner.Cluster {
		phaseKind = "ClusterObjectSetPhase"
	}
	phaseObjPhase := map[string]int{}
	for _, ph := range phases {
		if !ph.Local {
			phaseObjPhase[phaseObjectName(owner, ph.Name)] = ph.Index
		}
	}
	observed := map[simkube.Key]Obj{}
	seen := map[simkube.Key]bool{}
	observedPhaseObj := map[string]Obj{}
	phaseVerdict := func(j int) tri {
		ph := phases[j]
		if !ph.Local {
			return delegatedPhasePasses(observedPhaseObj[phaseObjectName(owner, ph.Name)])
		}
		res := triPass
		for _, po := range ph.Objects {
			k, _ := storeKey(store, po)
			if !seen[k] {
				return triFail // never observed in this pass
			}
			switch objectPasses(owner, observed[k]) {
			case triFail:
				return triFail
			case triUnknown:
				res = triUnknown
			}
		}
		return res
	}
	maxWritten := -1
	for _, r := range p.Requests {
		if r.InStore() != store {
			continue
		}
		k, isPhaseKey := -1, false
		if idx, ok := keyPhase[r.Key]; ok && !isPKOKind(r.GVK.Kind) {
			k = idx
		} else if r.GVK.Kind == phaseKind && r.Key.Namespace == owner.NS {
			if idx, ok := phaseObjPhase[r.Key.Name]; ok {
				k, isPhaseKey = idx, true
			}
		}
		if k < 0 {
			continue
		}
		switch {
		case r.Verb == "get":
			if isPhaseKey {
				if _, already := observedPhaseObj[r.Key.Name]; already {
					break // only the first read of the pass is relayed
				}
				if r.Err == nil {
					observedPhaseObj[r.Key.Name] = r.Post
				} else {
					observedPhaseObj[r.Key.Name] = nil
				}
			} else {
				seen[r.Key] = true
				if r.Err == nil {
					observed[r.Key] = r.Post
				} else {
					observed[r.Key] = nil
				}
			}
		case r.IsWrite() && !r.DryRun && r.Verb != "delete":
			e.Count("c03_phase_writes")
			for j := 0; j < k; j++ {
				v := phaseVerdict(j)
				if v == triFail {
					e.Report("C03:write-before-earlier-phase-passed",
						fmt.Sprintf("%s %s/%s wrote %s (phase #%d %q) although phase #%d %q had not passed on what this pass observed", owner.Kind, owner.NS, owner.Name, r, k, phases[k].Name, j, phases[j].Name))
					break
				}
			}
			if k > maxWritten {
				maxWritten = k
			}
			if r.Err == nil {
				if isPhaseKey {
					observedPhaseObj[r.Key.Name] = r.Post
				} else {
					seen[r.Key] = true
					observed[r.Key] = r.Post
				}
			}
		}
	}
	if maxWritten > 0 {
		e.Count("c03_passes_reaching_later_phase")
	}
	// the phase named in ProbeFailure is the first failing one
	if pr.Crashed || pr.Panic != nil || hasFault(p) {
		return
	}
	body, req := statusBody(p, owner)
	if req == nil {
		return
	}
	c := pkomodel.FindCond(body, "Available")
	if c == nil || c.Status != "False" || c.Reason != "ProbeFailure" {
		return
	}
	mm := phaseFailedRe.FindStringSubmatch(c.Message)
	if mm == nil {
		e.Report("C03:probe-failure-names-no-phase", fmt.Sprintf("%s %s/%s: %q", owner.Kind, owner.NS, owner.Name, c.Message))
		return
	}
	e.Count("c03_probe_failures_reported")
	first := -1
	for j := range phases {
		v := phaseVerdict(j)
		if v == triUnknown {
			return
		}
		if v == triFail {
			first = j
			break
		}
	}
	if first < 0 {
		e.Report("C03:probe-failure-but-all-phases-pass", fmt.Sprintf("%s %s/%s reports %q but every phase passes on what the pass observed", owner.Kind, owner.NS, owner.Name, c.Message))
		return
	}
	e.Count(fmt.Sprintf("c03_stopped_at_phase_index_%d", first))
	if phases[first].Name != mm[1] {
		e.Report("C03:wrong-phase-named", fmt.Sprintf("%s %s/%s names phase %q, first failing phase on what the pass observed is %q", owner.Kind, owner.NS, owner.Name, mm[1], phases[first].Name))
	}
	if maxWritten > first {
		e.Report("C03:wrote-past-failing-phase", fmt.Sprintf("%s %s/%s wrote phase #%d after phase #%d %q failed", owner.Kind, owner.NS, owner.Name, maxWritten, first, phases[first].Name))
	}
}
