package chk01

import (
	"fmt"
	"strings"
	"sync"

	"package-operator.run/internal/verifharness/vh"
)

func report(c *vh.Ctx, stream string, idx int, row Row, res rowResult) {
	for _, v := range res.Violations {
		c.Violation(v.Sig, v.Msg, map[string]any{"index": idx, "stream": stream, "row": row, "steps": res.Log, "trace": res.Trace})
	}
}

func Run(c *vh.Ctx) {
	size := TableSize()
	var idxs []int
	exhaustive := !c.Quick()
	if exhaustive {
		for i := 0; i < size; i++ {
			idxs = append(idxs, i)
		}
	} else {
		r := c.Rand("c01-table-sample", 0)
		seen := map[int]bool{}
		for len(idxs) < 1500 {
			i := r.Intn(size)
			if !seen[i] {
				seen[i] = true
				idxs = append(idxs, i)
			}
		}
	}
	var mu sync.Mutex
	classes := map[string]int{}
	vh.Parallel(len(idxs), func(k int) {
		i := idxs[k]
		if c.Skip("c01-table", i) {
			return
		}
		row := RowAt(i)
		res := RunRow(row)
		c.Eval()
		report(c, "c01-table", i, row, res)
		for k, v := range res.Counts {
			c.Count(k, v)
		}
		mu.Lock()
		for _, cl := range strings.Split(res.Decision, ";") {
			if cl != "" {
				classes[fmt.Sprintf("flavor=%d %s", row.Flavor, cl)]++
			}
		}
		mu.Unlock()
		if !strings.HasPrefix(res.Decision, "(") {
			c.DistinctAdd("row", 1)
		}
		if k < 2 {
			c.Sample(map[string]any{"row": row, "decision": res.Decision, "steps": res.Log})
		}
	})
	// forced adoption through the environment variable: process-global, so these rows run one at a time
	nEnv := c.N(150, 3000)
	r := c.Rand("c01-env-sample", 0)
	for k := 0; k < nEnv; k++ {
		i := r.Intn(size)
		if c.Skip("c01-env", i) {
			continue
		}
		row := RowAt(i)
		row.Env = true
		res := RunRow(row)
		c.Eval()
		report(c, "c01-env", i, row, res)
		c.Count("rows_with_forced_adoption_env", 1)
		for k, v := range res.Counts {
			c.Count(k, v)
		}
		if !strings.HasPrefix(res.Decision, "(") {
			c.DistinctAdd("row", 1)
		}
	}
	adversarial(c)
	c.SetExtra("decision_classes_observed", classes)
	c.SetExtra("table_rows_total", size)
	if exhaustive {
		c.SetExtra("exhaustive", true)
		c.SetExtra("exhaustive_scope", "the full decision table (owner shape x revision annotation x package label x collisionProtection x previous list x owner revision x controller flavour); env-var rows and adversarial runs are sampled")
	}
	// minimum observation: refusals and adoptions per collision-protection value and strategy, and newer-revision ignores
	need := []string{"cp=Prevent strategy=0 permitted=true", "cp=Prevent strategy=0 permitted=false", "cp=IfNoController strategy=0 permitted=true",
		"cp=IfNoController strategy=0 permitted=false", "cp=None strategy=0 permitted=true", "cp=Prevent strategy=1 permitted=true", "cp=Prevent strategy=1 permitted=false",
		"cp=None strategy=1 permitted=true", "viaRemote=true"}
	for _, n := range need {
		found := 0
		for cl, cnt := range classes {
			if strings.Contains(cl, n) {
				found += cnt
			}
		}
		c.Gate("decision class "+n, found > 0, fmt.Sprint(found))
	}
	c.GateCount("c01_refusals", 50)
	c.GateCount("c01_adoptions_done", 50)
	c.GateCount("c01_ignored_newer_revision", 20)
	c.Finish("exploration",
		"row = one combination of pre-existing object state (owner references, controller identity, revision annotation, labels) x collisionProtection x previous list x owner revision x controller flavour (ObjectSet, ClusterObjectSet, same-cluster ObjectSetPhase = native owner references; multi-cluster ObjectSetPhase = owners annotation); each row is built in a fresh simulated cluster and the real controller runs two passes; plus seeded adversarial runs where a third party creates / re-owns / relabels objects between passes; non-trivial = the pass read the object as existing and not controlled by the owner; distinct = distinct rows / distinct run traces",
		[]string{
			"environment model simkube (DESIGN.md 2.3): real server-side-apply merge engine, CRD schemas of the tree under test",
			"reference adoption predicate written from the statement (monitors/c01.go), controller identity read through the strategy in use",
			"PKO_FORCE_ADOPTION rows run sequentially because the variable is process-global",
		})
}
