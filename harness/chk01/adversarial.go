package chk01

import (
	"strings"

	"package-operator.run/internal/verifharness/driver"
	"package-operator.run/internal/verifharness/monitors"
	"package-operator.run/internal/verifharness/scen"
	"package-operator.run/internal/verifharness/vh"
)

// adversarial: seeded runs of revision chains in which a third party creates, re-owns or
// relabels the managed objects between PKO's reconciles.
func adversarial(c *vh.Ctx) {
	n := c.N(100, 3000)
	vh.Parallel(n, func(i int) {
		if c.Skip("c01-adversarial", i) {
			return
		}
		r := c.Rand("c01-adversarial", i)
		prof := scen.Profile{
			Steps: 40 + r.Intn(40), Cluster: r.Intn(4) == 0, Hosted: r.Intn(3) == 0, Delegated: []float64{0, 0, 0.3, 0.6}[r.Intn(4)], MaxRevisions: 3, ForgeControl: true,
			Weights: scen.WeightsWith(map[string]int{"adv-create": 8, "adv-reown": 8, "adv-relabel": 6, "adv-recreate": 4, "user-next-revision": 5, "restart": 0}),
		}
		mon := monitors.NewC01()
		e, err := scen.NewEnv(r, driver.Options{Hosted: prof.Hosted}, mon)
		if err != nil {
			panic(err)
		}
		scen.NewRandom(e, prof).Run()
		c.Eval()
		for _, v := range e.Viol {
			c.Violation(v.Sig, v.Msg, map[string]any{"index": i, "stream": "c01-adversarial", "profile": prof, "steps": e.Log, "trace": e.TraceTail(600)})
		}
		for k, v := range e.Counts {
			c.Count(k, v)
		}
		if e.Counts["c01_decisions"] > 0 {
			c.Distinct(strings.Join(e.Log, "\n"))
			c.Count("adversarial_runs_with_decisions", 1)
		}
		if i < 1 {
			c.Sample(map[string]any{"kind": "adversarial run", "steps": e.Log})
		}
	})
}
