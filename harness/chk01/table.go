// Package chk01 decides property C01 (collision protection).
package chk01

import (
	"encoding/json"
	"fmt"
	"os"
	"reflect"

	metav1 "k8s.io/apimachinery/pkg/apis/meta/v1"
	"k8s.io/apimachinery/pkg/types"
	"sigs.k8s.io/controller-runtime/pkg/client"

	corev1alpha1 "package-operator.run/apis/core/v1alpha1"
	"package-operator.run/internal/verifharness/driver"
	"package-operator.run/internal/verifharness/monitors"
	"package-operator.run/internal/verifharness/pkomodel"
	"package-operator.run/internal/verifharness/scen"
	"package-operator.run/internal/verifharness/vh"
)

type Row struct {
	Flavor   int  `json:"flavor"`   // 0 ObjectSet, 1 same-cluster ObjectSetPhase, 2 multi-cluster ObjectSetPhase (annotation strategy), 3 ClusterObjectSet
	Shape    int  `json:"shape"`    // 0 no owner, 1 plain owner only, 2 controller=ObjectSet pc, 3 controller=remote phase of pc, 4 controller=undeclared ObjectSet, 5 controller=foreign kind
	Extra    bool `json:"extra"`    // additional plain owner
	RevAnn   int  `json:"revAnn"`   // 0 absent, 1 lower, 2 equal, 3 higher, 4 garbage
	PkgLabel int  `json:"pkgLabel"` // 0 none, 1 package-operator, 2 other
	CP       int  `json:"cp"`       // 0 unset, 1 Prevent, 2 IfNoController, 3 None
	Prev     int  `json:"prev"`     // 0 empty, 1 [pc], 2 [pc,x,y], 3 [x,pc,y], 4 [x,y]
	RevO     int  `json:"revO"`     // 1, 2, 5
	Env      bool `json:"env"`      // PKO_FORCE_ADOPTION set
	Labelled bool `json:"labelled"` // pre-existing object carries the cache label
}

var dims = []int{4, 6, 2, 5, 3, 4, 5, 3}

func TableSize() int {
	n := 1
	for _, d := range dims {
		n *= d
	}
	return n
}

func RowAt(i int) Row {
	v := make([]int, len(dims))
	x := i
	for k, d := range dims {
		v[k] = x % d
		x /= d
	}
	return Row{Flavor: v[0], Shape: v[1], Extra: v[2] == 1, RevAnn: v[3], PkgLabel: v[4], CP: v[5], Prev: v[6], RevO: []int{1, 2, 5}[v[7]], Labelled: (i/7)%2 == 0}
}

var cpNames = []string{"", "Prevent", "IfNoController", "None"}

type rowResult struct {
	Violations []scen.Violation
	Log        []string
	Trace      []string
	Counts     map[string]int
	Decision   string
}

// RunRow builds the row's situation in a fresh world and runs two passes of the owner's controller.
func RunRow(row Row) (res rowResult) {
	mon := monitors.NewC01()
	e, err := scen.NewEnv(nil, driver.Options{Hosted: row.Flavor == 2}, mon)
	if err != nil {
		panic(err)
	}
	const ns = "ns"
	cluster := row.Flavor == 3
	setKind := "ObjectSet"
	setNS := ns
	if cluster {
		setKind, setNS = "ClusterObjectSet", ""
	}
	driver.MustCreate(e.Ctx, mustActor(e, false), driver.Namespace(ns))
	targetStore := row.Flavor == 2
	if targetStore {
		driver.MustCreate(e.Ctx, mustActor(e, true), driver.Namespace(ns))
	}
	// previous revisions pc, px, py and the undeclared one
	mk := func(name string) {
		phases := []corev1alpha1.ObjectSetTemplatePhase{{Name: "p", Objects: []corev1alpha1.ObjectSetObject{
			scen.ObjectSetObject(scen.Object(scen.GVKConfigMap, ns, "own-"+name, name), ""),
		}}}
		if err := e.Create("setup", false, scen.NewObjectSet(setNS, name, phases, nil)); err != nil {
			panic(err)
		}
	}
	prevRev := int64(row.RevO - 1)
	if prevRev < 1 {
		prevRev = 1
	}
	for _, n := range []string{"pc", "px", "py", "und"} {
		mk(n)
	}
	var remote []corev1alpha1.RemotePhaseReference
	if row.Shape == 3 {
		remote = []corev1alpha1.RemotePhaseReference{{Name: "pc-ph", UID: types.UID("remote-uid-1")}}
	}
	e.SetStatusRevision(setKind, setNS, "pc", prevRev, remote...)
	e.SetStatusRevision(setKind, setNS, "px", prevRev)
	e.SetStatusRevision(setKind, setNS, "py", prevRev)
	e.SetStatusRevision(setKind, setNS, "und", prevRev)
	uidOf := func(name string) string {
		return pkomodel.Str(e.W.Store.Peek(scen.PKO(setKind).GroupKind(), setNS, name), "metadata", "uid")
	}
	// the pre-existing object X
	x := scen.Object(scen.GVKConfigMap, ns, "x", "foreign-content")
	type ref struct {
		APIVersion string `json:"apiVersion"`
		Kind       string `json:"kind"`
		Name       string `json:"name"`
		Namespace  string `json:"namespace,omitempty"`
		UID        string `json:"uid"`
		Controller *bool  `json:"controller,omitempty"`
	}
	tru := true
	var refs []ref
	pko := corev1alpha1.GroupVersion.String()
	phaseKind := "ObjectSetPhase"
	if cluster {
		phaseKind = "ClusterObjectSetPhase"
	}
	switch row.Shape {
	case 1:
		refs = append(refs, ref{APIVersion: "apps/v1", Kind: "Deployment", Name: "plain", UID: "foreign-2"})
	case 2:
		refs = append(refs, ref{APIVersion: pko, Kind: setKind, Name: "pc", Namespace: setNS, UID: uidOf("pc"), Controller: &tru})
	case 3:
		refs = append(refs, ref{APIVersion: pko, Kind: phaseKind, Name: "pc-ph", Namespace: setNS, UID: "remote-uid-1", Controller: &tru})
	case 4:
		refs = append(refs, ref{APIVersion: pko, Kind: setKind, Name: "und", Namespace: setNS, UID: uidOf("und"), Controller: &tru})
	case 5:
		refs = append(refs, ref{APIVersion: "apps/v1", Kind: "Deployment", Name: "dep", UID: "foreign-1", Controller: &tru})
	}
	if row.Extra {
		refs = append(refs, ref{APIVersion: "v1", Kind: "ConfigMap", Name: "extra", UID: "foreign-3"})
	}
	ann := map[string]string{}
	lbl := map[string]string{}
	if len(refs) > 0 {
		if row.Flavor == 2 {
			b, _ := json.Marshal(refs)
			ann[pkomodel.OwnersAnnotation] = string(b)
		} else {
			var l []metav1.OwnerReference
			for _, r := range refs {
				l = append(l, metav1.OwnerReference{APIVersion: r.APIVersion, Kind: r.Kind, Name: r.Name, UID: types.UID(r.UID), Controller: r.Controller})
			}
			x.SetOwnerReferences(l)
		}
	}
	switch row.RevAnn {
	case 1:
		ann[pkomodel.RevisionAnnotation] = fmt.Sprint(row.RevO - 1)
	case 2:
		ann[pkomodel.RevisionAnnotation] = fmt.Sprint(row.RevO)
	case 3:
		ann[pkomodel.RevisionAnnotation] = fmt.Sprint(row.RevO + 3)
	case 4:
		ann[pkomodel.RevisionAnnotation] = "abc"
	}
	switch row.PkgLabel {
	case 1:
		lbl[pkomodel.PackageLabel] = "package-operator"
	case 2:
		lbl[pkomodel.PackageLabel] = "some-other-package"
	}
	if row.Labelled {
		lbl[pkomodel.CacheLabel] = "True"
	}
	if len(ann) > 0 {
		x.SetAnnotations(ann)
	}
	if len(lbl) > 0 {
		x.SetLabels(lbl)
	}
	if err := e.Create("third-party", targetStore, x); err != nil {
		panic(err)
	}
	// the owner under test
	var previous []string
	switch row.Prev {
	case 1:
		previous = []string{"pc"}
	case 2:
		previous = []string{"pc", "px", "py"}
	case 3:
		previous = []string{"px", "pc", "py"}
	case 4:
		previous = []string{"px", "py"}
	}
	desired := scen.Object(scen.GVKConfigMap, ns, "x", "desired-content")
	phase := corev1alpha1.ObjectSetTemplatePhase{Name: "main", Objects: []corev1alpha1.ObjectSetObject{scen.ObjectSetObject(desired, cpNames[row.CP])}}
	var ctrlName string
	key := types.NamespacedName{Namespace: setNS, Name: "o"}
	switch row.Flavor {
	case 0, 3:
		if err := e.Create("user", false, scen.NewObjectSet(setNS, "o", []corev1alpha1.ObjectSetTemplatePhase{phase}, nil, previous...)); err != nil {
			panic(err)
		}
		e.SetStatusRevision(setKind, setNS, "o", int64(row.RevO))
		ctrlName = driver.CtrlObjectSet
		if cluster {
			ctrlName = driver.CtrlClusterObjectSet
		}
	default:
		class := "default"
		ctrlName = driver.CtrlObjectSetPhase
		if row.Flavor == 2 {
			class, ctrlName = driver.RemoteClass, driver.CtrlRemotePhase
		}
		var prev []corev1alpha1.PreviousRevisionReference
		for _, p := range previous {
			prev = append(prev, corev1alpha1.PreviousRevisionReference{Name: p})
		}
		ph := &corev1alpha1.ObjectSetPhase{
			ObjectMeta: metav1.ObjectMeta{Name: "o", Namespace: ns, Labels: map[string]string{pkomodel.PhaseClassLabel: class}},
			Spec:       corev1alpha1.ObjectSetPhaseSpec{Revision: int64(row.RevO), Previous: prev, Objects: phase.Objects},
		}
		if err := e.Create("user", false, ph); err != nil {
			panic(err)
		}
	}
	objStore := e.W.Store
	if targetStore {
		objStore = e.W.Target
	}
	before := objStore.Peek(scen.GVKConfigMap.GroupKind(), ns, "x")
	if row.Env {
		os.Setenv("PKO_FORCE_ADOPTION", "1")
		defer os.Unsetenv("PKO_FORCE_ADOPTION")
	}
	for i := 0; i < 2; i++ {
		e.Reconcile(ctrlName, key)
	}
	after := objStore.Peek(scen.GVKConfigMap.GroupKind(), ns, "x")
	// end-state clause: a refused (or ignored) object is left untouched
	permitted := false
	for class, n := range mon.Decisions {
		if n > 0 && containsTrue(class, "permitted=true") {
			permitted = true
		}
		res.Decision += class + ";"
	}
	if len(mon.Decisions) == 0 {
		res.Decision = "(object never read as foreign)"
	}
	if !permitted && len(mon.Decisions) > 0 && !reflect.DeepEqual(before, after) {
		e.Report("C01:refused-object-modified", fmt.Sprintf("object changed although adoption was not permitted:\n before %s\n after  %s", vh.JSON(before), vh.JSON(after)))
	}
	res.Violations, res.Log, res.Counts = e.Viol, e.Log, e.Counts
	if len(e.Viol) > 0 {
		res.Trace = e.TraceTail(60)
	}
	return res
}

func containsTrue(s, sub string) bool {
	for i := 0; i+len(sub) <= len(s); i++ {
		if s[i:i+len(sub)] == sub {
			return true
		}
	}
	return false
}

func mustActor(e *scen.Env, target bool) client.Client {
	if target {
		_, c := e.W.TargetActor("setup")
		return c
	}
	_, c := e.W.Actor("setup")
	return c
}
