// Package chk03 decides property C03 (phases roll out in order, gated on probes).
package chk03

import (
	"math/rand"

	"package-operator.run/internal/verifharness/chkfam"
	"package-operator.run/internal/verifharness/monitors"
	"package-operator.run/internal/verifharness/scen"
	"package-operator.run/internal/verifharness/vh"
)

func Run(c *vh.Ctx) {
	chkfam.Run(c, chkfam.Config{
		Stream: "c03", NQuick: 300, NThorough: 5000,
		Profile: func(r *rand.Rand) scen.Profile {
			return scen.Profile{
				Steps: 50 + r.Intn(60), Cluster: r.Intn(4) == 0, Delegated: []float64{0, 0.3, 0.6}[r.Intn(3)], MaxRevisions: 1 + r.Intn(2),
				Sliced: r.Intn(3) == 0, SliceSeed: r.Int63(),
				Weights: scen.WeightsWith(map[string]int{"workload": 30, "reconcile": 45, "adv-create": 1, "adv-reown": 1, "adv-relabel": 1, "adv-edit": 2, "adv-delete": 2, "adv-recreate": 1, "user-archive": 0, "user-delete": 0, "user-pause": 1, "user-unpause": 2}),
				CPs:     []string{"", "None", "IfNoController"},
			}
		},
		Monitors:          func() []scen.Monitor { return []scen.Monitor{&monitors.C03{}, &monitors.C06{}} },
		NonTrivialCounter: "c03_phase_writes",
		Gates:             []chkfam.Gate{{"c03_phase_writes", 1000}, {"c03_passes_reaching_later_phase", 100}, {"c03_probe_failures_reported", 100}, {"c03_stopped_at_phase_index_0", 20}, {"c03_stopped_at_phase_index_1", 20}},
		Rule:              "run = random ObjectSet (1-3 phases plus optional delegated phases, ConfigMaps/Deployments/Widget CRs with Available probes) whose objects' status is driven by a workload actor (ready, not ready, stale observedGeneration, no status) interleaved with reconciles and drift; each rollout pass is checked offline: every create/patch of a phase-k object requires all earlier phases to pass the reference probe evaluation on the states this pass observed; non-trivial = the pass wrote at least one phase object; distinct = distinct step logs",
	})
}
