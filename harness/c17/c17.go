// Package c17 decides property C17 (availability probing is a pure conjunction over
// selected, up-to-date status) by running the real parsed prober over generated
// probe lists x generated unstructured objects and comparing with refprobe.
package c17

import (
	"context"
	"encoding/json"
	"fmt"
	"math/rand"
	"reflect"
	"sort"
	"strings"
	"sync"

	metav1 "k8s.io/apimachinery/pkg/apis/meta/v1"
	"k8s.io/apimachinery/pkg/apis/meta/v1/unstructured"

	corev1alpha1 "package-operator.run/apis/core/v1alpha1"
	"package-operator.run/internal/probing"
	"package-operator.run/internal/verifharness/refprobe"
	"package-operator.run/internal/verifharness/vh"
	pkgprobing "package-operator.run/pkg/probing"
)

type celRule struct {
	rule  string
	truth func(obj map[string]any) bool // ground truth by construction
}

var kinds = [][2]string{{"apps/v1", "Deployment"}, {"v1", "ConfigMap"}, {"example.com/v1", "Widget"}, {"apps.example/v1", "Deployment"}, {"legacy.example/v1", "ConfigMap"}}

func pick[T any](r *rand.Rand, xs ...T) T { return xs[r.Intn(len(xs))] }

func genValue(r *rand.Rand, depth int) any {
	switch r.Intn(7) {
	case 0:
		return int64(r.Intn(4))
	case 1:
		return pick(r, "a", "b", "", "True")
	case 2:
		return r.Intn(2) == 0
	case 3:
		return float64(r.Intn(3)) + 0.5
	case 4:
		if depth > 1 {
			return nil
		}
		n := r.Intn(3)
		l := make([]any, n)
		for i := range l {
			l[i] = genValue(r, depth+1)
		}
		return l
	case 5:
		if depth > 1 {
			return "leaf"
		}
		m := map[string]any{}
		for i := 0; i < r.Intn(3); i++ {
			m[pick(r, "x", "y", "z")] = genValue(r, depth+1)
		}
		return m
	}
	return nil
}

func genCondition(r *rand.Rand, gen int64) any {
	switch r.Intn(12) {
	case 0:
		return "not-a-map"
	case 1:
		return int64(3)
	case 2:
		return nil
	}
	c := map[string]any{}
	switch r.Intn(10) {
	case 0: // missing type
	case 1:
		c["type"] = int64(1)
	default:
		c["type"] = pick(r, "Available", "Ready", "Progressing", "Available")
	}
	switch r.Intn(10) {
	case 0:
	case 1:
		c["status"] = true
	default:
		c["status"] = pick(r, "True", "False", "Unknown", "True")
	}
	switch r.Intn(6) {
	case 0:
		c["observedGeneration"] = gen
	case 1:
		c["observedGeneration"] = gen + 1
	case 2:
		c["observedGeneration"] = pick[any](r, "1", 1.5, nil, map[string]any{})
	case 3:
		c["observedGeneration"] = gen - 1
	}
	return c
}

// genObject builds an object as JSON-representable data and round-trips it through the
// unstructured JSON decoder so that only API-representable values are used.
func genObject(r *rand.Rand) *unstructured.Unstructured {
	k := kinds[r.Intn(len(kinds))]
	gen := int64(pick(r, 1, 1, 2, 7))
	meta := map[string]any{"name": pick(r, "a", "b"), "namespace": "ns"}
	if r.Intn(8) != 0 {
		meta["generation"] = gen
	} else {
		gen = 0
	}
	if r.Intn(4) != 0 {
		l := map[string]any{}
		if r.Intn(2) == 0 {
			l["app"] = pick(r, "a", "b")
		}
		if r.Intn(2) == 0 {
			l["tier"] = pick(r, "x", "y")
		}
		if r.Intn(6) == 0 {
			l["empty"] = ""
		}
		meta["labels"] = l
	}
	obj := map[string]any{"apiVersion": k[0], "kind": k[1], "metadata": meta}
	if r.Intn(3) != 0 {
		spec := map[string]any{"replicas": int64(r.Intn(4))}
		if r.Intn(3) == 0 {
			spec["nested"] = map[string]any{"v": genValue(r, 1)}
		}
		if r.Intn(4) == 0 {
			spec["list"] = []any{int64(1), "a"}
		}
		obj["spec"] = spec
	}
	switch r.Intn(12) {
	case 0: // no status
	case 1:
		obj["status"] = pick[any](r, "scalar", int64(4), []any{}, nil)
	default:
		st := map[string]any{}
		switch r.Intn(8) {
		case 0, 1:
			st["observedGeneration"] = gen
		case 2:
			st["observedGeneration"] = gen + 1
		case 3:
			st["observedGeneration"] = gen - 1
		case 4:
			st["observedGeneration"] = pick[any](r, "2", 2.5, map[string]any{"a": int64(1)}, nil)
		}
		switch r.Intn(10) {
		case 0:
		case 1:
			st["conditions"] = pick[any](r, "str", map[string]any{"type": "Available", "status": "True"}, int64(1), nil)
		default:
			n := r.Intn(4)
			l := make([]any, 0, n)
			for i := 0; i < n; i++ {
				l = append(l, genCondition(r, gen))
			}
			st["conditions"] = l
		}
		if r.Intn(2) == 0 {
			st["replicas"] = int64(r.Intn(4))
		}
		if r.Intn(3) == 0 {
			st["updatedReplicas"] = int64(r.Intn(4))
		}
		if r.Intn(4) == 0 {
			st["nested"] = map[string]any{"v": genValue(r, 1)}
		}
		if r.Intn(5) == 0 {
			st["list"] = []any{int64(1), "a"}
		}
		if r.Intn(4) == 0 {
			st["phase"] = pick(r, "Running", "Pending")
		}
		obj["status"] = st
	}
	b, err := json.Marshal(obj)
	if err != nil {
		panic(err)
	}
	u := &unstructured.Unstructured{}
	if err := u.UnmarshalJSON(b); err != nil {
		panic(err)
	}
	return u
}

var celRules = []celRule{
	{`has(self.status) && type(self.status) == map && has(self.status.replicas) && self.status.replicas == 3`, func(o map[string]any) bool {
		st, ok := o["status"].(map[string]any)
		if !ok {
			return false
		}
		v, ok := st["replicas"].(int64)
		return ok && v == 3
	}},
	{`self.metadata.name == "a"`, func(o map[string]any) bool {
		return o["metadata"].(map[string]any)["name"] == "a"
	}},
	{`self.kind == "Deployment"`, func(o map[string]any) bool { return o["kind"] == "Deployment" }},
	{`true`, func(map[string]any) bool { return true }},
	{`false`, func(map[string]any) bool { return false }},
	{`has(self.spec) && self.spec.replicas > 1`, func(o map[string]any) bool {
		sp, ok := o["spec"].(map[string]any)
		if !ok {
			return false
		}
		v, ok := sp["replicas"].(int64)
		return ok && v > 1
	}},
	// errors at evaluation time (missing key) count as failure
	{`self.status.phase == "Running"`, func(o map[string]any) bool {
		st, ok := o["status"].(map[string]any)
		if !ok {
			return false
		}
		return st["phase"] == "Running"
	}},
}

var nonBoolRules = []string{`self.metadata.name`, `1 + 1`, `self`, `"x"`, `[1,2]`, `self.spec.replicas`}

var brokenRules = []string{`self.metadata.name ==`, `foo(`, `unknownVar == 1`}

var fieldPaths = []string{
	".spec.replicas", ".status.replicas", ".status.updatedReplicas", "status.replicas", ".metadata.generation",
	".status.observedGeneration", ".spec.nested", ".status.nested", ".spec.nested.v", ".status.nested.v", ".spec.list",
	".status.list", ".status.missing", ".spec.replicas.deep", ".metadata.name", ".status.conditions", ".status", "",
}

type genProbe struct {
	spec  corev1alpha1.Probe
	truth func(obj map[string]any) bool // only for CEL
}

func genLeaf(r *rand.Rand) genProbe {
	switch r.Intn(10) {
	case 0:
		return genProbe{spec: corev1alpha1.Probe{}} // no configuration: ignored
	case 1, 2, 3, 4:
		return genProbe{spec: corev1alpha1.Probe{Condition: &corev1alpha1.ProbeConditionSpec{
			Type: pick(r, "Available", "Ready", "Progressing", "Missing"), Status: pick(r, "True", "True", "False", "Unknown"),
		}}}
	case 5, 6, 7:
		a := pick(r, fieldPaths...)
		b := pick(r, fieldPaths...)
		if r.Intn(3) == 0 {
			b = a
		}
		return genProbe{spec: corev1alpha1.Probe{FieldsEqual: &corev1alpha1.ProbeFieldsEqualSpec{FieldA: a, FieldB: b}}}
	default:
		c := celRules[r.Intn(len(celRules))]
		return genProbe{
			spec:  corev1alpha1.Probe{CEL: &corev1alpha1.ProbeCELSpec{Rule: c.rule, Message: pick(r, "cel:"+c.rule, "cel:"+c.rule, "", "not ready")}},
			truth: c.truth,
		}
	}
}

func genLabelSelector(r *rand.Rand) *metav1.LabelSelector {
	switch r.Intn(8) {
	case 0:
		return nil
	case 1:
		return &metav1.LabelSelector{}
	case 2, 3:
		return &metav1.LabelSelector{MatchLabels: map[string]string{"app": pick(r, "a", "b")}}
	case 4:
		return &metav1.LabelSelector{MatchLabels: map[string]string{"app": "a", "tier": pick(r, "x", "y")}}
	case 5:
		return &metav1.LabelSelector{MatchExpressions: []metav1.LabelSelectorRequirement{{
			Key: pick(r, "app", "tier"), Operator: pick(r, metav1.LabelSelectorOpIn, metav1.LabelSelectorOpNotIn), Values: []string{pick(r, "a", "x"), "q"},
		}}}
	case 6:
		return &metav1.LabelSelector{MatchExpressions: []metav1.LabelSelectorRequirement{{
			Key: pick(r, "app", "tier", "empty"), Operator: pick(r, metav1.LabelSelectorOpExists, metav1.LabelSelectorOpDoesNotExist),
		}}}
	default:
		return &metav1.LabelSelector{
			MatchLabels: map[string]string{"tier": "x"},
			MatchExpressions: []metav1.LabelSelectorRequirement{{
				Key: "app", Operator: metav1.LabelSelectorOpIn, Values: []string{"a"},
			}},
		}
	}
}

func genProbeList(r *rand.Rand, objKind [2]string) ([]corev1alpha1.ObjectSetProbe, [][]genProbe) {
	n := r.Intn(5)
	out := make([]corev1alpha1.ObjectSetProbe, n)
	leaves := make([][]genProbe, n)
	for i := range out {
		var sel corev1alpha1.ProbeSelector
		if r.Intn(4) != 0 {
			k := kinds[r.Intn(len(kinds))]
			if r.Intn(3) != 0 {
				k = objKind
			}
			g := ""
			if j := strings.IndexByte(k[0], '/'); j >= 0 {
				g = k[0][:j]
			}
			sel.Kind = &corev1alpha1.PackageProbeKindSpec{Group: g, Kind: k[1]}
		}
		sel.Selector = genLabelSelector(r)
		m := r.Intn(4)
		for j := 0; j < m; j++ {
			l := genLeaf(r)
			leaves[i] = append(leaves[i], l)
			out[i].Probes = append(out[i].Probes, l.spec)
		}
		out[i].Selector = sel
	}
	return out, leaves
}

// realLeaf builds the real leaf prober from pkg/probing for composition oracle A.
func realLeaf(p corev1alpha1.Probe) pkgprobing.Prober {
	switch {
	case p.FieldsEqual != nil:
		return &pkgprobing.FieldsEqualProbe{FieldA: p.FieldsEqual.FieldA, FieldB: p.FieldsEqual.FieldB}
	case p.Condition != nil:
		return &pkgprobing.ConditionProbe{Type: p.Condition.Type, Status: p.Condition.Status}
	case p.CEL != nil:
		key := p.CEL.Rule + "\x00" + p.CEL.Message
		if c, ok := celCache.Load(key); ok {
			return c.(pkgprobing.Prober)
		}
		c, err := pkgprobing.NewCELProbe(p.CEL.Rule, p.CEL.Message)
		if err != nil {
			return nil
		}
		celCache.Store(key, c)
		return c
	}
	return nil
}

var celCache sync.Map

func sortedCopy(s []string) []string {
	o := append([]string{}, s...)
	sort.Strings(o)
	return o
}

func Run(c *vh.Ctx) {
	ctx := context.Background()
	n := c.N(20000, 1000000)
	type caseDump struct {
		Probes []corev1alpha1.ObjectSetProbe `json:"probes"`
		Object map[string]any                `json:"object"`
		Index  int                           `json:"index"`
		Stream string                        `json:"stream"`
	}
	vh.Parallel(n, func(i int) {
		if c.Skip("c17", i) {
			return
		}
		r := c.Rand("c17", i)
		obj := genObject(r)
		probes, leaves := genProbeList(r, [2]string{obj.GetAPIVersion(), obj.GetKind()})
		before := obj.DeepCopy()
		dump := caseDump{probes, before.Object, i, "c17"}

		var gotOK bool
		var gotMsgs []string
		func() {
			defer func() {
				if p := recover(); p != nil {
					c.Violation("panic-in-probe", fmt.Sprintf("panic: %v", p), dump)
				}
			}()
			prober, err := probing.Parse(ctx, probes)
			if err != nil {
				c.Violation("parse-error-on-valid-probes", err.Error(), dump)
				return
			}
			gotOK, gotMsgs = prober.Probe(obj)
		}()
		c.Eval()

		// D: probing does not change the object
		if !reflect.DeepEqual(before.Object, obj.Object) {
			c.Violation("object-mutated", "object changed by probing", dump)
		}
		c.Count("objects_compared_for_mutation", 1)

		// A: composition (selectors, conjunction, staleness guard, all messages) with real leaves
		var expMsgs []string
		expOK := true
		selected, stale, staleLeaves := 0, 0, 0
		for ei, e := range probes {
			if !refprobe.Selects(e.Selector, before.Object) {
				continue
			}
			selected++
			if refprobe.Stale(before.Object) {
				stale++
				expOK = false
				expMsgs = append(expMsgs, "*stale*")
				for _, p := range e.Probes {
					if realLeaf(p) != nil {
						staleLeaves++ // an implementation may additionally report the leaves of a stale entry
					}
				}
				continue
			}
			for li, p := range e.Probes {
				rl := realLeaf(p)
				if rl == nil {
					continue
				}
				ok, msgs := rl.Probe(before.DeepCopy())
				if !ok {
					expOK = false
					expMsgs = append(expMsgs, msgs...)
				}
				// B: leaf semantics against the reference on documented shapes
				ref, _ := refprobe.Leaf(p, before.Object)
				if p.CEL != nil {
					if leaves[ei][li].truth(before.Object) {
						ref = refprobe.Pass
					} else {
						ref = refprobe.Fail
					}
				}
				switch ref {
				case refprobe.Unspecified:
					c.Count("leaf_unspecified_shape", 1)
				case refprobe.Pass, refprobe.Fail:
					c.Count("leaf_compared", 1)
					if (ref == refprobe.Pass) != ok {
						c.Violation("leaf-semantics:"+leafKind(p),
							fmt.Sprintf("leaf %s: reference=%v real=%v msgs=%v", vh.JSON(p), ref == refprobe.Pass, ok, msgs), dump)
					}
					if !ok && len(msgs) != 1 {
						c.Violation("leaf-messages:"+leafKind(p), fmt.Sprintf("failing leaf reports %d messages", len(msgs)), dump)
					}
				}
			}
		}
		if expOK != gotOK {
			c.Violation(fmt.Sprintf("composition-verdict:exp=%v", expOK),
				fmt.Sprintf("expected success=%v got %v; expected msgs %v got %v", expOK, gotOK, expMsgs, gotMsgs), dump)
		} else {
			// all failing probes are reported: multiset equality, the stale marker matching any single message
			if len(gotMsgs) < len(expMsgs) || len(gotMsgs) > len(expMsgs)+staleLeaves {
				c.Violation("composition-messages-count",
					fmt.Sprintf("expected %d failure reports %v, got %d %v", len(expMsgs), expMsgs, len(gotMsgs), gotMsgs), dump)
			} else {
				e2 := []string{}
				for _, m := range expMsgs {
					if m != "*stale*" {
						e2 = append(e2, m)
					}
				}
				g2 := sortedCopy(gotMsgs)
				for _, m := range sortedCopy(e2) {
					j := sort.SearchStrings(g2, m)
					if j >= len(g2) || g2[j] != m {
						c.Violation("composition-messages-content", fmt.Sprintf("expected report %q missing from %v", m, gotMsgs), dump)
						break
					}
					g2 = append(g2[:j], g2[j+1:]...)
				}
			}
		}
		if gotOK && len(gotMsgs) != 0 {
			c.Violation("messages-on-success", fmt.Sprintf("%v", gotMsgs), dump)
		}

		// C: metamorphic clauses straight from the statement
		if selected == 0 {
			c.Count("case_no_entry_selects", 1)
			if !gotOK {
				c.Violation("unselected-object-fails", fmt.Sprintf("no entry selects the object but it fails: %v", gotMsgs), dump)
			}
		}
		if stale > 0 {
			c.Count("case_selected_and_stale", 1)
			if gotOK {
				c.Violation("stale-object-passes", "selected object with stale status.observedGeneration passes", dump)
			}
		}
		// whole reference (independent leaves) when everything is in documented shapes
		rp, rf, unspec := refprobe.Eval(probes, before.Object)
		if !unspec {
			c.Count("whole_reference_compared", 1)
			if rp != gotOK || len(gotMsgs) < rf || len(gotMsgs) > rf+staleLeaves {
				c.Violation("whole-reference", fmt.Sprintf("reference pass=%v failing=%d; real pass=%v msgs=%v", rp, rf, gotOK, gotMsgs), dump)
			}
		}
		// distinct non-trivial: at least one entry selects and has a leaf
		if selected > 0 {
			c.Distinct(fmt.Sprintf("%s|%s", vh.JSON(probes), vh.JSON(before.Object)))
			c.Count("case_selected", 1)
			if stale == 0 {
				c.Count("case_selected_fresh", 1)
			}
		}
		if i < 3 {
			c.Sample(map[string]any{"probes": probes, "object": before.Object, "success": gotOK, "messages": gotMsgs})
		}
		if gotOK {
			c.Count("verdict_pass", 1)
		} else {
			c.Count("verdict_fail", 1)
		}
	})

	// targeted clauses: selected condition probe whose condition declares another generation => fail;
	// fieldsEqual with a missing side => fail; non-boolean / broken CEL => Parse errors
	m := c.N(2000, 50000)
	vh.Parallel(m, func(i int) {
		if c.Skip("c17-targeted", i) {
			return
		}
		r := c.Rand("c17-targeted", i)
		gen := int64(1 + r.Intn(5))
		other := gen + int64(1+r.Intn(3))
		if r.Intn(2) == 0 {
			other = gen - 1
		}
		condOG := other
		st := pick(r, "True", "False")
		conds := []any{map[string]any{"type": "Other", "status": "True"}, map[string]any{"type": "Available", "status": st, "observedGeneration": condOG}}
		if r.Intn(2) == 0 {
			conds[0], conds[1] = conds[1], conds[0]
		}
		obj := &unstructured.Unstructured{Object: map[string]any{
			"apiVersion": "apps/v1", "kind": "Deployment",
			"metadata": map[string]any{"name": "a", "namespace": "ns", "generation": gen, "labels": map[string]any{"app": "a"}},
			"spec":     map[string]any{"replicas": int64(2)},
			"status":   map[string]any{"conditions": conds, "replicas": int64(2)},
		}}
		sel := corev1alpha1.ProbeSelector{Kind: &corev1alpha1.PackageProbeKindSpec{Group: "apps", Kind: "Deployment"}}
		if r.Intn(2) == 0 {
			sel.Selector = &metav1.LabelSelector{MatchLabels: map[string]string{"app": "a"}}
		}
		check := func(name string, probes []corev1alpha1.Probe, wantPass bool) {
			pl := []corev1alpha1.ObjectSetProbe{{Selector: sel, Probes: probes}}
			func() {
				defer func() {
					if p := recover(); p != nil {
						c.Violation("panic-in-probe", fmt.Sprintf("panic: %v", p), pl)
					}
				}()
				pr, err := probing.Parse(ctx, pl)
				if err != nil {
					c.Violation("parse-error-on-valid-probes", err.Error(), pl)
					return
				}
				ok, msgs := pr.Probe(obj.DeepCopy())
				c.Eval()
				c.Count("targeted_"+name, 1)
				if ok != wantPass {
					c.Violation("clause:"+name, fmt.Sprintf("want pass=%v got %v %v on %s", wantPass, ok, msgs, vh.JSON(obj.Object)), map[string]any{"probes": pl, "object": obj.Object})
				}
			}()
		}
		check("condition-declares-other-generation", []corev1alpha1.Probe{{Condition: &corev1alpha1.ProbeConditionSpec{Type: "Available", Status: st}}}, false)
		check("fieldsequal-missing-side", []corev1alpha1.Probe{{FieldsEqual: &corev1alpha1.ProbeFieldsEqualSpec{FieldA: ".spec.replicas", FieldB: pick(r, ".status.nope", ".status.replicas.x", ".nope")}}}, false)
		check("fieldsequal-equal", []corev1alpha1.Probe{{FieldsEqual: &corev1alpha1.ProbeFieldsEqualSpec{FieldA: ".spec.replicas", FieldB: ".status.replicas"}}}, true)
		// all failing probes reported
		func() {
			pl := []corev1alpha1.ObjectSetProbe{{Selector: sel, Probes: []corev1alpha1.Probe{
				{Condition: &corev1alpha1.ProbeConditionSpec{Type: "Nope", Status: "True"}},
				{FieldsEqual: &corev1alpha1.ProbeFieldsEqualSpec{FieldA: ".spec.replicas", FieldB: ".status.nope"}},
				{CEL: &corev1alpha1.ProbeCELSpec{Rule: "false", Message: "celmsg"}},
			}}, {Selector: corev1alpha1.ProbeSelector{}, Probes: []corev1alpha1.Probe{{CEL: &corev1alpha1.ProbeCELSpec{Rule: "self.kind == 'X'", Message: "second"}}}}}
			pr, err := probing.Parse(ctx, pl)
			if err != nil {
				c.Violation("parse-error-on-valid-probes", err.Error(), pl)
				return
			}
			ok, msgs := pr.Probe(obj.DeepCopy())
			c.Eval()
			c.Count("targeted_all-failures-reported", 1)
			if ok || len(msgs) != 4 {
				c.Violation("clause:all-failures-reported", fmt.Sprintf("want 4 reports, got ok=%v %v", ok, msgs), pl)
			}
		}()
		for _, rule := range append(append([]string{}, nonBoolRules...), brokenRules...) {
			pl := []corev1alpha1.ObjectSetProbe{{Selector: sel, Probes: []corev1alpha1.Probe{{CEL: &corev1alpha1.ProbeCELSpec{Rule: rule, Message: "m"}}}}}
			func() {
				defer func() {
					if p := recover(); p != nil {
						c.Violation("panic-in-parse", fmt.Sprintf("panic: %v", p), pl)
					}
				}()
				_, err := probing.Parse(ctx, pl)
				c.Count("targeted_cel-must-be-boolean", 1)
				if err == nil {
					c.Violation("clause:cel-must-be-boolean", "Parse accepted rule "+rule, pl)
				}
			}()
			if i > 20 {
				break // compile cost: the full list only for the first cases
			}
		}
	})
	c.GateCount("case_no_entry_selects", 50)
	c.GateCount("case_selected_and_stale", 50)
	c.GateCount("case_selected_fresh", 50)
	c.GateCount("leaf_compared", 1000)
	c.GateCount("whole_reference_compared", 1000)
	c.GateCount("verdict_pass", 50)
	c.GateCount("verdict_fail", 50)
	c.GateCount("targeted_condition-declares-other-generation", 100)
	c.Finish("exploration",
		"cases = (probe list, unstructured object) drawn from PRNG(seed,index); non-trivial = at least one probe entry selects the object; distinct = distinct (probes,object) JSON",
		[]string{
			"composition oracle uses the real leaf probers of pkg/probing individually; leaf semantics are compared with refprobe only on shapes the API documentation covers (list of condition objects, unique type, integer generations)",
			"CEL leaves: ground truth by construction of the rule, cel-go itself is trusted",
			"non-integer observedGeneration is treated as 'not declared'",
		})
}

func leafKind(p corev1alpha1.Probe) string {
	switch {
	case p.FieldsEqual != nil:
		return "fieldsEqual"
	case p.Condition != nil:
		return "condition"
	case p.CEL != nil:
		return "cel"
	}
	return "none"
}
