package simkube

import (
	"strings"

	"k8s.io/apimachinery/pkg/api/meta"
	"k8s.io/apimachinery/pkg/runtime/schema"
)

// restMapper answers from the store's kind registry at call time, so that kinds
// registered (or removed) later are seen, like a dynamic REST mapper.
type restMapper struct{ s *Store }

var _ meta.RESTMapper = (*restMapper)(nil)

func (s *Store) RESTMapper() meta.RESTMapper { return &restMapper{s} }

// UnregisterKind removes a kind (an API that disappeared).
func (s *Store) UnregisterKind(gk schema.GroupKind) {
	s.kmu.Lock()
	defer s.kmu.Unlock()
	delete(s.kinds, gk)
}

func (m *restMapper) byResource(r schema.GroupVersionResource) []KindInfo {
	var out []KindInfo
	for _, k := range m.s.Kinds() {
		if k.GVK.Group != r.Group && r.Group != "" {
			continue
		}
		if r.Version != "" && r.Version != k.GVK.Version {
			continue
		}
		if k.Plural == r.Resource || strings.ToLower(k.GVK.Kind) == r.Resource {
			out = append(out, k)
		}
	}
	return out
}

func (m *restMapper) KindFor(r schema.GroupVersionResource) (schema.GroupVersionKind, error) {
	ks := m.byResource(r)
	if len(ks) == 0 {
		return schema.GroupVersionKind{}, &meta.NoResourceMatchError{PartialResource: r}
	}
	return ks[0].GVK, nil
}

func (m *restMapper) KindsFor(r schema.GroupVersionResource) ([]schema.GroupVersionKind, error) {
	ks := m.byResource(r)
	if len(ks) == 0 {
		return nil, &meta.NoResourceMatchError{PartialResource: r}
	}
	var out []schema.GroupVersionKind
	for _, k := range ks {
		out = append(out, k.GVK)
	}
	return out, nil
}

func (m *restMapper) ResourceFor(r schema.GroupVersionResource) (schema.GroupVersionResource, error) {
	ks := m.byResource(r)
	if len(ks) == 0 {
		return schema.GroupVersionResource{}, &meta.NoResourceMatchError{PartialResource: r}
	}
	return ks[0].GVK.GroupVersion().WithResource(ks[0].Plural), nil
}

func (m *restMapper) ResourcesFor(r schema.GroupVersionResource) ([]schema.GroupVersionResource, error) {
	ks := m.byResource(r)
	if len(ks) == 0 {
		return nil, &meta.NoResourceMatchError{PartialResource: r}
	}
	var out []schema.GroupVersionResource
	for _, k := range ks {
		out = append(out, k.GVK.GroupVersion().WithResource(k.Plural))
	}
	return out, nil
}

func (m *restMapper) RESTMapping(gk schema.GroupKind, versions ...string) (*meta.RESTMapping, error) {
	k, ok := m.s.Kind(gk)
	if !ok {
		return nil, &meta.NoKindMatchError{GroupKind: gk, SearchedVersions: versions}
	}
	match := len(versions) == 0
	for _, v := range versions {
		if v == "" || v == k.GVK.Version {
			match = true
		}
	}
	if !match {
		return nil, &meta.NoKindMatchError{GroupKind: gk, SearchedVersions: versions}
	}
	scope := meta.RESTScopeRoot
	if k.Namespaced {
		scope = meta.RESTScopeNamespace
	}
	return &meta.RESTMapping{Resource: k.GVK.GroupVersion().WithResource(k.Plural), GroupVersionKind: k.GVK, Scope: scope}, nil
}

func (m *restMapper) RESTMappings(gk schema.GroupKind, versions ...string) ([]*meta.RESTMapping, error) {
	mp, err := m.RESTMapping(gk, versions...)
	if err != nil {
		return nil, err
	}
	return []*meta.RESTMapping{mp}, nil
}

func (m *restMapper) ResourceSingularizer(resource string) (string, error) {
	return strings.TrimSuffix(resource, "s"), nil
}

// CopyKindsFrom registers every kind of another store (schemas are shared, they are immutable).
func (s *Store) CopyKindsFrom(o *Store) {
	for _, k := range o.Kinds() {
		s.RegisterKind(k)
	}
}
