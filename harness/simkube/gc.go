package simkube

import (
	"context"
	"sort"
	"strings"

	metav1 "k8s.io/apimachinery/pkg/apis/meta/v1"
	"k8s.io/apimachinery/pkg/runtime/schema"
)

// GCStep plays one round of the garbage collector: dependents whose owners are all gone are
// deleted (background propagation), dangling references next to live owners are removed, the
// orphan finalizer of a terminating owner is processed (its references are stripped from the
// dependents, then the finalizer is removed) and foreground deletion deletes dependents first.
// Returns the number of state-changing steps.
func (s *Store) GCStep(ctx context.Context) int {
	pass := &Pass{Actor: "gc"}
	s.mu.Lock()
	defer s.mu.Unlock()
	changed := 0
	byUID := map[string]Key{}
	keys := make([]Key, 0, len(s.objs))
	for k, o := range s.objs {
		byUID[strField(o, "metadata", "uid")] = k
		keys = append(keys, k)
	}
	sort.Slice(keys, func(i, j int) bool { return keys[i].String() < keys[j].String() })
	record := func(verb string, key Key, pre, post Obj) {
		req := &Request{Actor: "gc", Pass: pass, Role: "gc", Verb: verb, Key: key, Pre: pre, Post: post, Changed: true}
		if k, ok := s.kind(schema.GroupKind{Group: key.Group, Kind: key.Kind}); ok {
			req.GVK = k.GVK
		}
		s.recordLocked(req)
		changed++
	}
	ownerState := func(dep Key, ref map[string]any) (exists bool, resolvable bool, owner Obj, okey Key) {
		uid, _ := ref["uid"].(string)
		k, ok := byUID[uid]
		if !ok {
			// is the reference resolvable at all? a cluster-scoped dependent cannot be owned by a namespaced kind
			apiVersion, _ := ref["apiVersion"].(string)
			kind, _ := ref["kind"].(string)
			group := ""
			if i := strings.IndexByte(apiVersion, '/'); i >= 0 {
				group = apiVersion[:i]
			}
			if ki, known := s.kind(schema.GroupKind{Group: group, Kind: kind}); known && ki.Namespaced && dep.Namespace == "" {
				return false, false, nil, Key{}
			}
			return false, true, nil, Key{}
		}
		if k.Namespace != "" && k.Namespace != dep.Namespace {
			return false, true, nil, Key{} // owner in another namespace: treated as absent
		}
		return true, true, s.objs[k], k
	}
	for _, key := range keys {
		o, ok := s.objs[key]
		if !ok {
			continue
		}
		refs, _ := metaOf(o)["ownerReferences"].([]any)
		if len(refs) == 0 {
			continue
		}
		if _, terminating := metaOf(o)["deletionTimestamp"]; terminating {
			continue
		}
		var solid, dangling []any
		unresolvable := false
		waiting := false
		for _, r := range refs {
			m, _ := r.(map[string]any)
			exists, resolvable, owner, _ := ownerState(key, m)
			switch {
			case !resolvable:
				unresolvable = true
			case exists:
				solid = append(solid, r)
				if owner != nil {
					if _, term := metaOf(owner)["deletionTimestamp"]; term {
						for _, f := range finalizersOf(owner) {
							if f == metav1.FinalizerDeleteDependents {
								if b, _ := m["blockOwnerDeletion"].(bool); b {
									waiting = true
								}
							}
						}
					}
				}
			default:
				dangling = append(dangling, r)
			}
		}
		if unresolvable {
			continue
		}
		k, _ := s.kind(schema.GroupKind{Group: key.Group, Kind: key.Kind})
		if k == nil {
			continue
		}
		switch {
		case len(solid) == 0 || (waiting && len(solid) == 1):
			// all owners gone (or the only owner waits for its dependents): delete the dependent
			pre := deepCopy(o)
			req := &Request{}
			_, err := s.deleteLocked(k, key.Namespace, key.Name, Preconditions{}, "", false, req)
			if err == nil && req.Changed {
				record("delete", key, pre, deepCopy(s.objs[key]))
			}
		case len(dangling) > 0:
			pre := deepCopy(o)
			next := deepCopy(o)
			putOwnerRefs(next, solid)
			s.commitLocked(key, next)
			record("patch", key, pre, deepCopy(next))
		}
	}
	// finalizers of terminating owners
	for _, key := range keys {
		o, ok := s.objs[key]
		if !ok {
			continue
		}
		if _, term := metaOf(o)["deletionTimestamp"]; !term {
			continue
		}
		uid := strField(o, "metadata", "uid")
		fins := finalizersOf(o)
		for _, f := range fins {
			if f != metav1.FinalizerOrphanDependents && f != metav1.FinalizerDeleteDependents {
				continue
			}
			remaining := 0
			for _, dk := range keys {
				d, ok := s.objs[dk]
				if !ok {
					continue
				}
				refs, _ := metaOf(d)["ownerReferences"].([]any)
				var keep []any
				has := false
				for _, r := range refs {
					if refUID(r) == uid {
						has = true
						continue
					}
					keep = append(keep, r)
				}
				if !has {
					continue
				}
				if f == metav1.FinalizerOrphanDependents {
					pre := deepCopy(d)
					next := deepCopy(d)
					putOwnerRefs(next, keep)
					s.commitLocked(dk, next)
					record("patch", dk, pre, deepCopy(next))
				} else {
					remaining++
				}
			}
			if remaining == 0 {
				pre := deepCopy(o)
				next := deepCopy(o)
				var nf []string
				for _, x := range fins {
					if x != f {
						nf = append(nf, x)
					}
				}
				setFinalizers(next, nf)
				if len(nf) == 0 {
					s.commitLocked(key, nil)
					record("delete", key, pre, nil)
				} else {
					s.commitLocked(key, next)
					record("patch", key, pre, deepCopy(next))
				}
			}
			break
		}
	}
	_ = ctx
	return changed
}
