// Package simkube is the environment model of the verification harness: an in-memory
// Kubernetes API server behind controller-runtime's client.Client interface, with
// request tracing, fault injection and scheduling gates. See DESIGN.md section 2.3 for the
// fidelity rules.
package simkube

import (
	"context"
	"encoding/json"
	"fmt"
	"reflect"
	"sort"
	"strconv"
	"strings"
	"sync"
	"time"

	apierrors "k8s.io/apimachinery/pkg/api/errors"
	"k8s.io/apimachinery/pkg/api/meta"
	metav1 "k8s.io/apimachinery/pkg/apis/meta/v1"
	"k8s.io/apimachinery/pkg/labels"
	"k8s.io/apimachinery/pkg/runtime/schema"
	"k8s.io/apimachinery/pkg/types"
	"k8s.io/apimachinery/pkg/util/validation/field"
)

const (
	// RejectAnnotation makes every write (dry-run or not) of an object carrying it fail with Invalid.
	RejectAnnotation = "simkube.verif/reject"
	timeBase         = 1_700_000_000
)

type KindInfo struct {
	GVK        schema.GroupVersionKind
	Plural     string
	Namespaced bool
	StatusSub  bool // kind has a status sub-resource
	Generation bool // server maintains metadata.generation
	crd        *crdSchema
}

func (k KindInfo) GR() schema.GroupResource {
	return schema.GroupResource{Group: k.GVK.Group, Resource: k.Plural}
}

type Key struct {
	Group, Kind, Namespace, Name string
}

func (k Key) String() string {
	return fmt.Sprintf("%s/%s %s/%s", k.Group, k.Kind, k.Namespace, k.Name)
}

type Obj = map[string]any

type version struct {
	seq int64
	obj Obj // nil = absent
}

// Pass describes one reconcile invocation (or one step of another actor).
type Pass struct {
	ID         int
	Actor      string // controller flavour or actor name
	Key        types.NamespacedName
	Requests   []*Request
	Attrs      map[string]any
	Terminated bool
}

type Preconditions struct {
	UID             *types.UID
	ResourceVersion *string
}

// Request is one traced API request.
type Request struct {
	Seq          int
	Actor        string
	Pass         *Pass
	Role         string // client role: cached, uncached, target, dyncache, actor
	Verb         string // get list create update patch delete
	Sub          string // "" or "status"
	GVK          schema.GroupVersionKind
	Key          Key
	DryRun       bool
	PatchType    types.PatchType
	FieldManager string
	Force        bool
	Precond      Preconditions
	Propagation  string
	Body         any // submitted object / decoded patch
	Pre          Obj // stored state at commit time before the request (nil: absent)
	Post         Obj // stored state after (writes) / returned object (reads)
	Err          error
	Changed      bool
	Fault        string
	ListCount    int
	StoreSeq     int64 // commit sequence of the store after the request
	store        *Store
}

func (r *Request) IsWrite() bool {
	return r.Verb != "get" && r.Verb != "list"
}

func (r *Request) String() string {
	e := ""
	if r.Err != nil {
		e = " err=" + string(apierrors.ReasonForError(r.Err))
		if e == " err=" {
			e = " err=" + firstN(r.Err.Error(), 60)
		}
	}
	d := ""
	if r.DryRun {
		d = " dryRun"
	}
	s := r.Sub
	if s != "" {
		s = "/" + s
	}
	return fmt.Sprintf("#%d %s[%s] %s%s %s %s/%s%s%s changed=%v", r.Seq, r.Actor, r.Role, r.Verb, s, r.GVK.Kind, r.Key.Namespace, r.Key.Name, d, e, r.Changed)
}

func firstN(s string, n int) string {
	if len(s) > n {
		return s[:n]
	}
	return s
}

type FaultKind int

const (
	FaultNone FaultKind = iota
	FaultErrorBefore
	FaultLostResponse
	FaultCrash
)

// CrashSentinel is the panic value used to simulate a process crash at a request.
type CrashSentinel struct{ Seq int }

type Store struct {
	mu      sync.Mutex
	name    string
	kmu     sync.RWMutex // guards kinds only (monitors look kinds up from inside the commit section)
	kinds   map[schema.GroupKind]*KindInfo
	objs    map[Key]Obj
	history map[Key][]version
	seq     int64 // commit sequence (resourceVersion source)
	uidSeq  int
	reqSeq  int
	trace   []*Request
	keep    bool // keep the trace

	monitors []func(*Request)
	// Fault decides fault injection for a request about to execute (called without the store lock held).
	Fault func(*Request) (FaultKind, error)
	// Gate is called before every request (without the lock): scheduling point for interleaved mode.
	Gate func(context.Context, *Request)
	// ssa engine
	ssa *ssaEngine
	// born: request sequence at which the current incarnation of an object was created
	born map[Key]int64
	// refAppliers: per object, ownerReference uid -> apply managers owning the entry
	refAppliers map[Key]map[string]map[string]bool
}

func NewStore(name string) *Store {
	s := &Store{
		name: name, kinds: map[schema.GroupKind]*KindInfo{}, objs: map[Key]Obj{}, history: map[Key][]version{},
		keep: true,
	}
	s.ssa = newSSAEngine()
	return s
}

func (s *Store) Name() string { return s.name }

func (s *Store) RegisterKind(k KindInfo) {
	s.kmu.Lock()
	defer s.kmu.Unlock()
	kk := k
	s.kinds[k.GVK.GroupKind()] = &kk
}

func (s *Store) Kind(gk schema.GroupKind) (*KindInfo, bool) {
	s.kmu.RLock()
	defer s.kmu.RUnlock()
	k, ok := s.kinds[gk]
	return k, ok
}

// kindLocked is the lookup used while s.mu is held.
func (s *Store) kind(gk schema.GroupKind) (*KindInfo, bool) { return s.Kind(gk) }

func (s *Store) Kinds() []KindInfo {
	s.kmu.RLock()
	defer s.kmu.RUnlock()
	var out []KindInfo
	for _, k := range s.kinds {
		out = append(out, *k)
	}
	sort.Slice(out, func(i, j int) bool { return out[i].GVK.String() < out[j].GVK.String() })
	return out
}

// Subscribe registers an online monitor. It runs inside the commit section (store lock held)
// and must not call back into the store.
func (s *Store) Subscribe(m func(*Request)) {
	s.mu.Lock()
	s.monitors = append(s.monitors, m)
	s.mu.Unlock()
}

func (s *Store) Trace() []*Request {
	s.mu.Lock()
	defer s.mu.Unlock()
	return append([]*Request{}, s.trace...)
}

func (s *Store) Seq() int64 { s.mu.Lock(); defer s.mu.Unlock(); return s.seq }

func (s *Store) ReqSeq() int { s.mu.Lock(); defer s.mu.Unlock(); return s.reqSeq }

func deepCopy(o Obj) Obj {
	if o == nil {
		return nil
	}
	return deepCopyAny(o).(Obj)
}

func deepCopyAny(v any) any {
	switch t := v.(type) {
	case map[string]any:
		m := make(map[string]any, len(t))
		for k, x := range t {
			m[k] = deepCopyAny(x)
		}
		return m
	case []any:
		l := make([]any, len(t))
		for i, x := range t {
			l[i] = deepCopyAny(x)
		}
		return l
	default:
		return v
	}
}

// normalize round-trips through JSON so that stored objects only hold JSON types
// (int64/float64/string/bool/nil/map/slice) exactly as an API server would persist them.
func normalize(v any) (Obj, error) {
	b, err := json.Marshal(v)
	if err != nil {
		return nil, err
	}
	return decodeJSON(b)
}

func nestedMap(o Obj, path ...string) Obj {
	cur := o
	for _, p := range path {
		n, ok := cur[p].(map[string]any)
		if !ok {
			return nil
		}
		cur = n
	}
	return cur
}

func ensureMap(o Obj, key string) Obj {
	m, ok := o[key].(map[string]any)
	if !ok {
		m = map[string]any{}
		o[key] = m
	}
	return m
}

func metaOf(o Obj) Obj { return ensureMap(o, "metadata") }

func strField(o Obj, path ...string) string {
	if len(path) == 0 {
		return ""
	}
	m := nestedMap(o, path[:len(path)-1]...)
	if m == nil {
		return ""
	}
	s, _ := m[path[len(path)-1]].(string)
	return s
}

func finalizersOf(o Obj) []string {
	m := nestedMap(o, "metadata")
	if m == nil {
		return nil
	}
	l, _ := m["finalizers"].([]any)
	var out []string
	for _, f := range l {
		if s, ok := f.(string); ok {
			out = append(out, s)
		}
	}
	return out
}

func setFinalizers(o Obj, f []string) {
	m := metaOf(o)
	if len(f) == 0 {
		delete(m, "finalizers")
		return
	}
	l := make([]any, len(f))
	for i, s := range f {
		l[i] = s
	}
	m["finalizers"] = l
}

func labelsOf(o Obj) labels.Set {
	out := labels.Set{}
	m := nestedMap(o, "metadata", "labels")
	for k, v := range m {
		if s, ok := v.(string); ok {
			out[k] = s
		}
	}
	return out
}

func (s *Store) now() string {
	return time.Unix(timeBase+s.seq, 0).UTC().Format(time.RFC3339)
}

func (s *Store) keyFor(k *KindInfo, ns, name string) Key {
	if !k.Namespaced {
		ns = ""
	}
	return Key{k.GVK.Group, k.GVK.Kind, ns, name}
}

// ---- direct (untraced) accessors for oracles and scenario setup -----------------------------

func (s *Store) Peek(gk schema.GroupKind, ns, name string) Obj {
	s.mu.Lock()
	defer s.mu.Unlock()
	k, ok := s.kind(gk)
	if !ok {
		return nil
	}
	return deepCopy(s.objs[s.keyFor(k, ns, name)])
}

func (s *Store) PeekKey(key Key) Obj {
	s.mu.Lock()
	defer s.mu.Unlock()
	return deepCopy(s.objs[key])
}

// Snapshot returns a deep copy of all stored objects.
func (s *Store) Snapshot() map[Key]Obj {
	s.mu.Lock()
	defer s.mu.Unlock()
	out := make(map[Key]Obj, len(s.objs))
	for k, v := range s.objs {
		out[k] = deepCopy(v)
	}
	return out
}

// AsOf returns the object as of `lag` commits ago (lag 0 = now).
func (s *Store) asOfLocked(key Key, lag int64) Obj {
	if lag <= 0 {
		return s.objs[key]
	}
	at := s.seq - lag
	h := s.history[key]
	var cur Obj
	for _, v := range h {
		if v.seq > at {
			break
		}
		cur = v.obj
	}
	return cur
}

// ---- errors ----------------------------------------------------------------------------------

func (k *KindInfo) notFound(name string) error {
	return apierrors.NewNotFound(k.GR(), name)
}

func (k *KindInfo) conflict(name string, msg string) error {
	return apierrors.NewConflict(k.GR(), name, fmt.Errorf("%s", msg))
}

func (k *KindInfo) invalid(name string, errs field.ErrorList) error {
	return apierrors.NewInvalid(k.GVK.GroupKind(), name, errs)
}

func noMatch(gk schema.GroupKind) error {
	return &meta.NoKindMatchError{GroupKind: gk}
}

// ---- commit helpers --------------------------------------------------------------------------

type writeOpts struct {
	dryRun       bool
	fieldManager string
	force        bool
}

func (s *Store) commitLocked(key Key, obj Obj) {
	s.seq++
	if s.born == nil {
		s.born = map[Key]int64{}
	}
	if _, exists := s.objs[key]; !exists && obj != nil {
		s.born[key] = int64(s.reqSeq)
	}
	if obj == nil {
		delete(s.born, key)
	}
	if obj != nil {
		metaOf(obj)["resourceVersion"] = strconv.FormatInt(s.seq, 10)
		s.objs[key] = obj
	} else {
		delete(s.objs, key)
	}
	s.history[key] = append(s.history[key], version{s.seq, deepCopy(obj)})
}

func equalIgnoringRV(a, b Obj) bool {
	if a == nil || b == nil {
		return a == nil && b == nil
	}
	ac, bc := deepCopy(a), deepCopy(b)
	delete(metaOf(ac), "resourceVersion")
	delete(metaOf(bc), "resourceVersion")
	// managedFields timestamps do not count as a change
	stripManagedTimes(ac)
	stripManagedTimes(bc)
	return reflect.DeepEqual(ac, bc)
}

func stripManagedTimes(o Obj) {
	l, _ := metaOf(o)["managedFields"].([]any)
	for _, e := range l {
		if m, ok := e.(map[string]any); ok {
			delete(m, "time")
		}
	}
}

// validateCommon: checks the API server performs for every kind.
func (s *Store) validateCommon(k *KindInfo, o Obj) error {
	name := strField(o, "metadata", "name")
	var errs field.ErrorList
	if ann := nestedMap(o, "metadata", "annotations"); ann != nil {
		if v, _ := ann[RejectAnnotation].(string); v == "true" {
			errs = append(errs, field.Invalid(field.NewPath("metadata", "annotations").Key(RejectAnnotation), v, "object is marked as rejected by admission"))
		}
	}
	refs, _ := metaOf(o)["ownerReferences"].([]any)
	ctrl := 0
	seenUID := map[string]bool{}
	for i, r := range refs {
		m, ok := r.(map[string]any)
		if !ok {
			errs = append(errs, field.Invalid(field.NewPath("metadata", "ownerReferences").Index(i), r, "must be an object"))
			continue
		}
		for _, req := range []string{"apiVersion", "kind", "name", "uid"} {
			if v, _ := m[req].(string); v == "" {
				errs = append(errs, field.Required(field.NewPath("metadata", "ownerReferences").Index(i).Child(req), ""))
			}
		}
		if c, _ := m["controller"].(bool); c {
			ctrl++
		}
		uid, _ := m["uid"].(string)
		if seenUID[uid] {
			errs = append(errs, field.Duplicate(field.NewPath("metadata", "ownerReferences").Index(i).Child("uid"), uid))
		}
		seenUID[uid] = true
	}
	if ctrl > 1 {
		errs = append(errs, field.Invalid(field.NewPath("metadata", "ownerReferences"), "", "Only one reference can have Controller set to true"))
	}
	for lk, lv := range nestedMap(o, "metadata", "labels") {
		if _, ok := lv.(string); !ok {
			errs = append(errs, field.Invalid(field.NewPath("metadata", "labels").Key(lk), lv, "must be a string"))
		}
	}
	for ak, av := range nestedMap(o, "metadata", "annotations") {
		if _, ok := av.(string); !ok {
			errs = append(errs, field.Invalid(field.NewPath("metadata", "annotations").Key(ak), av, "must be a string"))
		}
	}
	if len(errs) > 0 {
		return k.invalid(name, errs)
	}
	return nil
}

// preserveServerFields copies the fields only the server may set from cur to next.
func preserveServerFields(cur, next Obj) {
	cm, nm := metaOf(cur), metaOf(next)
	for _, f := range []string{"uid", "creationTimestamp", "deletionTimestamp", "deletionGracePeriodSeconds", "generation", "selfLink"} {
		if v, ok := cm[f]; ok {
			nm[f] = v
		} else {
			delete(nm, f)
		}
	}
	nm["name"] = cm["name"]
	if ns, ok := cm["namespace"]; ok {
		nm["namespace"] = ns
	} else {
		delete(nm, "namespace")
	}
}

func specChanged(cur, next Obj) bool {
	a, b := deepCopy(cur), deepCopy(next)
	for _, o := range []Obj{a, b} {
		delete(o, "metadata")
		delete(o, "status")
	}
	return !reflect.DeepEqual(a, b)
}

func stampGVK(k *KindInfo, o Obj) {
	apiVersion, kind := k.GVK.ToAPIVersionAndKind()
	o["apiVersion"] = apiVersion
	o["kind"] = kind
}

// finishUpdateLocked validates and commits next as the new state of an existing object.
// Returns the stored object (or nil if the update released the last finalizer of a terminating object).
func (s *Store) finishUpdateLocked(k *KindInfo, key Key, cur, next Obj, sub string, o writeOpts, req *Request) (Obj, error) {
	name := key.Name
	stampGVK(k, next)
	preserveServerFields(cur, next)
	if sub == "status" {
		// only status (and managedFields) may change
		st, has := next["status"]
		mf := metaOf(next)["managedFields"]
		n2 := deepCopy(cur)
		if has {
			n2["status"] = st
		} else {
			delete(n2, "status")
		}
		if mf != nil {
			metaOf(n2)["managedFields"] = mf
		}
		next = n2
	} else if k.StatusSub {
		if st, has := cur["status"]; has {
			next["status"] = deepCopyAny(st)
		} else {
			delete(next, "status")
		}
	}
	if k.crd != nil {
		k.crd.prune(next)
		k.crd.applyDefaults(next)
		if errs := k.crd.validate(next, cur); len(errs) > 0 {
			return nil, k.invalid(name, errs)
		}
	}
	if err := s.validateCommon(k, next); err != nil {
		return nil, err
	}
	if k.Generation && specChanged(cur, next) {
		g, _ := asInt64(metaOf(cur)["generation"])
		metaOf(next)["generation"] = g + 1
	}
	// a terminating object without finalizers disappears
	if _, terminating := metaOf(next)["deletionTimestamp"]; terminating && len(finalizersOf(next)) == 0 {
		req.Changed = true
		if !o.dryRun {
			s.commitLocked(key, nil)
		}
		return next, nil
	}
	if equalIgnoringRV(cur, next) {
		metaOf(next)["resourceVersion"] = metaOf(cur)["resourceVersion"]
		return next, nil
	}
	req.Changed = true
	if o.dryRun {
		return next, nil
	}
	s.commitLocked(key, next)
	return deepCopy(next), nil
}

func asInt64(v any) (int64, bool) {
	switch t := v.(type) {
	case int64:
		return t, true
	case int:
		return int64(t), true
	case float64:
		return int64(t), true
	case json.Number:
		i, err := t.Int64()
		return i, err == nil
	}
	return 0, false
}

func (s *Store) namespaceExistsLocked(ns string) bool {
	nsKind, ok := s.kind(schema.GroupKind{Kind: "Namespace"})
	if !ok {
		return true // namespaces not modelled in this store
	}
	o, ok := s.objs[s.keyFor(nsKind, "", ns)]
	_ = o
	return ok
}

func (s *Store) createLocked(k *KindInfo, obj Obj, o writeOpts, req *Request) (Obj, error) {
	name := strField(obj, "metadata", "name")
	if name == "" {
		return nil, k.invalid("", field.ErrorList{field.Required(field.NewPath("metadata", "name"), "name or generateName is required")})
	}
	ns := strField(obj, "metadata", "namespace")
	if k.Namespaced {
		if ns == "" {
			return nil, apierrors.NewBadRequest("an empty namespace may not be set during creation")
		}
		if !s.namespaceExistsLocked(ns) {
			return nil, apierrors.NewNotFound(schema.GroupResource{Resource: "namespaces"}, ns)
		}
	} else {
		// request scope comes from the resource: the namespace of a cluster-scoped body is cleared
		delete(metaOf(obj), "namespace")
		ns = ""
	}
	key := s.keyFor(k, ns, name)
	req.Key = key
	if cur, exists := s.objs[key]; exists {
		req.Pre = deepCopy(cur)
		return nil, apierrors.NewAlreadyExists(k.GR(), name)
	}
	next := obj
	stampGVK(k, next)
	m := metaOf(next)
	delete(m, "deletionTimestamp")
	delete(m, "resourceVersion")
	if k.StatusSub {
		delete(next, "status")
	}
	if k.crd != nil {
		k.crd.prune(next)
		k.crd.applyDefaults(next)
		if errs := k.crd.validate(next, nil); len(errs) > 0 {
			return nil, k.invalid(name, errs)
		}
	}
	if err := s.validateCommon(k, next); err != nil {
		return nil, err
	}
	s.uidSeq++
	m["uid"] = fmt.Sprintf("%s-uid-%04d", s.name, s.uidSeq)
	m["creationTimestamp"] = s.now()
	if k.Generation {
		m["generation"] = int64(1)
	}
	req.Changed = true
	if o.dryRun {
		s.uidSeq--
		m["resourceVersion"] = strconv.FormatInt(s.seq+1, 10)
		return next, nil
	}
	s.commitLocked(key, next)
	return deepCopy(next), nil
}

func (s *Store) deleteLocked(k *KindInfo, ns, name string, pre Preconditions, propagation string, dryRun bool, req *Request) (Obj, error) {
	key := s.keyFor(k, ns, name)
	req.Key = key
	cur, ok := s.objs[key]
	if !ok {
		return nil, k.notFound(name)
	}
	req.Pre = deepCopy(cur)
	if pre.UID != nil && string(*pre.UID) != strField(cur, "metadata", "uid") {
		return nil, k.conflict(name, fmt.Sprintf("Precondition failed: UID in precondition: %v, UID in object meta: %v", *pre.UID, strField(cur, "metadata", "uid")))
	}
	if pre.ResourceVersion != nil && *pre.ResourceVersion != strField(cur, "metadata", "resourceVersion") {
		return nil, k.conflict(name, fmt.Sprintf("Precondition failed: ResourceVersion in precondition: %v, ResourceVersion in object meta: %v", *pre.ResourceVersion, strField(cur, "metadata", "resourceVersion")))
	}
	next := deepCopy(cur)
	fins := finalizersOf(next)
	addFin := func(f string) {
		for _, x := range fins {
			if x == f {
				return
			}
		}
		fins = append(fins, f)
	}
	switch propagation {
	case string(metav1.DeletePropagationOrphan):
		addFin(metav1.FinalizerOrphanDependents)
	case string(metav1.DeletePropagationForeground):
		addFin(metav1.FinalizerDeleteDependents)
	}
	setFinalizers(next, fins)
	if len(fins) == 0 {
		req.Changed = true
		if !dryRun {
			s.commitLocked(key, nil)
		}
		return next, nil
	}
	m := metaOf(next)
	if _, already := m["deletionTimestamp"]; already && equalIgnoringRV(cur, next) {
		return next, nil // deleting a terminating object again changes nothing
	}
	if _, already := m["deletionTimestamp"]; !already {
		m["deletionTimestamp"] = s.now()
		m["deletionGracePeriodSeconds"] = int64(0)
		if g, ok := asInt64(m["generation"]); ok && g > 0 {
			m["generation"] = g + 1
		}
	}
	req.Changed = true
	if !dryRun {
		s.commitLocked(key, next)
	}
	return deepCopy(next), nil
}

func selectorMatches(sel labels.Selector, o Obj) bool {
	if sel == nil {
		return true
	}
	return sel.Matches(labelsOf(o))
}

// listLocked returns copies sorted by namespace/name.
// youngLocked: the object was created within the last n requests (age is measured in requests so that
// a created object becomes visible to every cache after finitely many further requests).
func (s *Store) youngLocked(key Key, n int64) bool {
	if n <= 0 {
		return false
	}
	b, ok := s.born[key]
	return ok && b > int64(s.reqSeq)-n
}

func (s *Store) listLocked(k *KindInfo, ns string, sel labels.Selector, lag int64, keep func(Obj) bool) []Obj {
	var out []Obj
	keys := make([]Key, 0)
	seen := map[Key]bool{}
	for key := range s.objs {
		if key.Group == k.GVK.Group && key.Kind == k.GVK.Kind {
			keys = append(keys, key)
			seen[key] = true
		}
	}
	if lag > 0 {
		for key := range s.history {
			if key.Group == k.GVK.Group && key.Kind == k.GVK.Kind && !seen[key] {
				keys = append(keys, key)
			}
		}
	}
	sort.Slice(keys, func(i, j int) bool {
		if keys[i].Namespace != keys[j].Namespace {
			return keys[i].Namespace < keys[j].Namespace
		}
		return keys[i].Name < keys[j].Name
	})
	for _, key := range keys {
		if ns != "" && k.Namespaced && key.Namespace != ns {
			continue
		}
		o := s.asOfLocked(key, lag)
		if o == nil || !selectorMatches(sel, o) {
			continue
		}
		if keep != nil && !keep(o) {
			continue
		}
		out = append(out, deepCopy(o))
	}
	return out
}

func keysString(m map[string]any) string {
	ks := make([]string, 0, len(m))
	for k := range m {
		ks = append(ks, k)
	}
	sort.Strings(ks)
	return strings.Join(ks, ",")
}

// PeekLocked may only be called from a monitor callback (the commit section holds the lock).
func (s *Store) PeekLocked(key Key) Obj { return s.objs[key] }

// AgeLocked: number of requests since the object was created (for monitors, inside the commit section).
func (s *Store) AgeLocked(key Key) int64 {
	b, ok := s.born[key]
	if !ok {
		return 1 << 60
	}
	return int64(s.reqSeq) - b
}

// KeysLocked lists the stored keys; monitor callbacks only.
func (s *Store) KeysLocked() []Key {
	out := make([]Key, 0, len(s.objs))
	for k := range s.objs {
		out = append(out, k)
	}
	return out
}

// Store the request belongs to (set when recorded).
func (r *Request) InStore() *Store { return r.store }
