package simkube

import (
	"fmt"
	"sync"

	apierrors "k8s.io/apimachinery/pkg/api/errors"
	"k8s.io/apimachinery/pkg/apis/meta/v1/unstructured"
	"k8s.io/apimachinery/pkg/runtime"
	"k8s.io/apimachinery/pkg/runtime/schema"
	utiljson "k8s.io/apimachinery/pkg/util/json"
	"k8s.io/apimachinery/pkg/util/managedfields"
)

func decodeJSON(b []byte) (Obj, error) {
	var m map[string]any
	if err := utiljson.Unmarshal(b, &m); err != nil {
		return nil, err
	}
	return m, nil
}

// ssaEngine runs the real server-side-apply merge engine (structured-merge-diff through
// apimachinery's managedfields.FieldManager) on unstructured objects with the deduced type
// converter. metadata.ownerReferences is handled outside the engine as the associative list
// keyed by uid that the real ObjectMeta schema declares (the deduced converter would treat
// it as atomic).
type ssaEngine struct {
	mu   sync.Mutex
	mgrs map[schema.GroupVersionKind]*managedfields.FieldManager
	tc   managedfields.TypeConverter
}

func newSSAEngine() *ssaEngine {
	return &ssaEngine{mgrs: map[schema.GroupVersionKind]*managedfields.FieldManager{}, tc: managedfields.NewDeducedTypeConverter()}
}

type unsConvertor struct{}

func (unsConvertor) Convert(in, out, _ any) error {
	i, ok1 := in.(*unstructured.Unstructured)
	o, ok2 := out.(*unstructured.Unstructured)
	if !ok1 || !ok2 {
		return fmt.Errorf("simkube: cannot convert %T to %T", in, out)
	}
	o.Object = i.DeepCopy().Object
	return nil
}

func (unsConvertor) ConvertToVersion(in runtime.Object, _ runtime.GroupVersioner) (runtime.Object, error) {
	return in, nil
}

func (unsConvertor) ConvertFieldLabel(_ schema.GroupVersionKind, label, value string) (string, string, error) {
	return label, value, nil
}

type unsCreater struct{}

func (unsCreater) New(gvk schema.GroupVersionKind) (runtime.Object, error) {
	u := &unstructured.Unstructured{}
	u.SetGroupVersionKind(gvk)
	return u, nil
}

type noDefaulter struct{}

func (noDefaulter) Default(runtime.Object) {}

func (e *ssaEngine) managerFor(gvk schema.GroupVersionKind) (*managedfields.FieldManager, error) {
	e.mu.Lock()
	defer e.mu.Unlock()
	if m, ok := e.mgrs[gvk]; ok {
		return m, nil
	}
	m, err := managedfields.NewDefaultFieldManager(e.tc, unsConvertor{}, noDefaulter{}, unsCreater{}, gvk, gvk.GroupVersion(), "", nil)
	if err != nil {
		return nil, err
	}
	e.mgrs[gvk] = m
	return m, nil
}

const ownerRefOwnersKey = "simkube.verif/ownerref-appliers" // internal side table, never returned to clients

func takeOwnerRefs(o Obj) []any {
	m := metaOf(o)
	l, _ := m["ownerReferences"].([]any)
	delete(m, "ownerReferences")
	return l
}

func putOwnerRefs(o Obj, l []any) {
	if len(l) == 0 {
		delete(metaOf(o), "ownerReferences")
		return
	}
	metaOf(o)["ownerReferences"] = l
}

func refUID(r any) string {
	m, _ := r.(map[string]any)
	s, _ := m["uid"].(string)
	return s
}

// apply performs a server-side apply of `applied` onto `live` (nil = create) for `manager`.
// appliers is the side table uid -> set of apply managers that own the ownerReference entry.
func (e *ssaEngine) apply(gvk schema.GroupVersionKind, live, applied Obj, manager string, force bool,
	appliers map[string]map[string]bool,
) (Obj, map[string]map[string]bool, error) {
	mgr, err := e.managerFor(gvk)
	if err != nil {
		return nil, nil, err
	}
	var liveRefs []any
	liveU := &unstructured.Unstructured{}
	if live != nil {
		lc := deepCopy(live)
		liveRefs = takeOwnerRefs(lc)
		liveU.Object = lc
	} else {
		liveU.SetGroupVersionKind(gvk)
	}
	ac := deepCopy(applied)
	_, refsGiven := metaOf(ac)["ownerReferences"]
	appliedRefs := takeOwnerRefs(ac)
	// fields a client must not apply
	am := metaOf(ac)
	for _, f := range []string{"resourceVersion", "uid", "creationTimestamp", "generation", "managedFields", "deletionTimestamp", "selfLink"} {
		delete(am, f)
	}
	appliedU := &unstructured.Unstructured{Object: ac}
	appliedU.SetGroupVersionKind(gvk)
	res, err := mgr.Apply(liveU, appliedU, manager, force)
	if err != nil {
		if apierrors.IsConflict(err) || apierrors.IsBadRequest(err) || apierrors.IsInvalid(err) {
			return nil, nil, err
		}
		return nil, nil, apierrors.NewBadRequest(fmt.Sprintf("failed to create typed patch object: %v", err))
	}
	out := res.(*unstructured.Unstructured).Object
	// associative merge of ownerReferences keyed by uid
	newAppliers := map[string]map[string]bool{}
	for uid, ms := range appliers {
		newAppliers[uid] = map[string]bool{}
		for m := range ms {
			newAppliers[uid][m] = true
		}
	}
	merged := append([]any{}, liveRefs...)
	_ = refsGiven
	given := map[string]bool{}
	for _, r := range appliedRefs {
		uid := refUID(r)
		given[uid] = true
		found := false
		for i := range merged {
			if refUID(merged[i]) == uid {
				merged[i] = deepCopyAny(r)
				found = true
			}
		}
		if !found {
			merged = append(merged, deepCopyAny(r))
		}
		if newAppliers[uid] == nil {
			newAppliers[uid] = map[string]bool{}
		}
		newAppliers[uid][manager] = true
	}
	// entries this manager applied before and no longer applies are removed unless co-owned
	var kept []any
	for _, r := range merged {
		uid := refUID(r)
		if !given[uid] && newAppliers[uid][manager] {
			delete(newAppliers[uid], manager)
			if len(newAppliers[uid]) == 0 {
				delete(newAppliers, uid)
				continue
			}
		}
		kept = append(kept, r)
	}
	putOwnerRefs(out, kept)
	return out, newAppliers, nil
}

// update records a non-apply write (create/update/merge-/json-patch) for `manager` in managedFields.
func (e *ssaEngine) update(gvk schema.GroupVersionKind, live, next Obj, manager string) (Obj, error) {
	mgr, err := e.managerFor(gvk)
	if err != nil {
		return nil, err
	}
	liveU := &unstructured.Unstructured{}
	if live != nil {
		lc := deepCopy(live)
		takeOwnerRefs(lc)
		liveU.Object = lc
	} else {
		liveU.SetGroupVersionKind(gvk)
	}
	nc := deepCopy(next)
	refs := takeOwnerRefs(nc)
	nextU := &unstructured.Unstructured{Object: nc}
	nextU.SetGroupVersionKind(gvk)
	res, err := mgr.Update(liveU, nextU, manager)
	if err != nil {
		return nil, err
	}
	out := res.(*unstructured.Unstructured).Object
	putOwnerRefs(out, refs)
	return out, nil
}
