package simkube

import (
	"context"
	"fmt"
	"os"
	"path/filepath"
	"sort"

	"k8s.io/apiextensions-apiserver/pkg/apis/apiextensions"
	apiextensionsv1 "k8s.io/apiextensions-apiserver/pkg/apis/apiextensions/v1"
	structuralschema "k8s.io/apiextensions-apiserver/pkg/apiserver/schema"
	celvalidation "k8s.io/apiextensions-apiserver/pkg/apiserver/schema/cel"
	"k8s.io/apiextensions-apiserver/pkg/apiserver/schema/defaulting"
	"k8s.io/apiextensions-apiserver/pkg/apiserver/schema/pruning"
	apiservervalidation "k8s.io/apiextensions-apiserver/pkg/apiserver/validation"
	"k8s.io/apimachinery/pkg/runtime/schema"
	"k8s.io/apimachinery/pkg/util/validation/field"
	celconfig "k8s.io/apiserver/pkg/apis/cel"
	"sigs.k8s.io/yaml"
)

// crdSchema carries the real structural schema of a CRD of the tree under test and
// evaluates defaulting, pruning, OpenAPI validation and the x-kubernetes-validations
// (CEL, including transition rules) exactly with the API server's own libraries.
type crdSchema struct {
	structural *structuralschema.Structural
	validator  apiservervalidation.SchemaValidator
	cel        *celvalidation.Validator
}

func (c *crdSchema) applyDefaults(o Obj) { defaulting.Default(o, c.structural) }

func (c *crdSchema) prune(o Obj) {
	// metadata is kept as is (ObjectMeta is validated elsewhere)
	md := o["metadata"]
	pruning.Prune(o, c.structural, true)
	if md != nil {
		o["metadata"] = md
	}
}

func (c *crdSchema) validate(o, old Obj) field.ErrorList {
	var errs field.ErrorList
	errs = append(errs, apiservervalidation.ValidateCustomResource(nil, o, c.validator)...)
	if c.cel != nil && len(errs) == 0 {
		var oldAny any
		if old != nil {
			oldAny = map[string]any(old)
		}
		celErrs, _ := c.cel.Validate(context.Background(), nil, c.structural, map[string]any(o), oldAny, celconfig.RuntimeCELCostBudget)
		errs = append(errs, celErrs...)
	}
	return errs
}

// LoadCRDs registers every CRD found in dir (config/crds of the tree under test).
func (s *Store) LoadCRDs(dir string) error {
	files, err := filepath.Glob(filepath.Join(dir, "*.yaml"))
	if err != nil {
		return err
	}
	sort.Strings(files)
	if len(files) == 0 {
		return fmt.Errorf("no CRDs in %s", dir)
	}
	for _, f := range files {
		b, err := os.ReadFile(f)
		if err != nil {
			return err
		}
		crd := &apiextensionsv1.CustomResourceDefinition{}
		if err := yaml.Unmarshal(b, crd); err != nil {
			return fmt.Errorf("%s: %w", f, err)
		}
		for _, v := range crd.Spec.Versions {
			if !v.Storage || v.Schema == nil || v.Schema.OpenAPIV3Schema == nil {
				continue
			}
			internal := &apiextensions.JSONSchemaProps{}
			if err := apiextensionsv1.Convert_v1_JSONSchemaProps_To_apiextensions_JSONSchemaProps(v.Schema.OpenAPIV3Schema, internal, nil); err != nil {
				return fmt.Errorf("%s: %w", f, err)
			}
			st, err := structuralschema.NewStructural(internal)
			if err != nil {
				return fmt.Errorf("%s: %w", f, err)
			}
			val, _, err := apiservervalidation.NewSchemaValidator(internal)
			if err != nil {
				return fmt.Errorf("%s: %w", f, err)
			}
			cs := &crdSchema{structural: st, validator: val}
			cs.cel = celvalidation.NewValidator(st, true, celconfig.PerCallLimit)
			s.RegisterKind(KindInfo{
				GVK:        schema.GroupVersionKind{Group: crd.Spec.Group, Version: v.Name, Kind: crd.Spec.Names.Kind},
				Plural:     crd.Spec.Names.Plural,
				Namespaced: crd.Spec.Scope == apiextensionsv1.NamespaceScoped,
				StatusSub:  v.Subresources != nil && v.Subresources.Status != nil,
				Generation: true,
				crd:        cs,
			})
		}
	}
	return nil
}
