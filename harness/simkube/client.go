package simkube

import (
	"context"
	"encoding/json"
	"fmt"
	"reflect"
	"strings"

	jsonpatch "gopkg.in/evanphx/json-patch.v4"
	apierrors "k8s.io/apimachinery/pkg/api/errors"
	"k8s.io/apimachinery/pkg/api/meta"
	metav1 "k8s.io/apimachinery/pkg/apis/meta/v1"
	"k8s.io/apimachinery/pkg/apis/meta/v1/unstructured"
	"k8s.io/apimachinery/pkg/labels"
	"k8s.io/apimachinery/pkg/runtime"
	"k8s.io/apimachinery/pkg/runtime/schema"
	"k8s.io/apimachinery/pkg/types"
	"sigs.k8s.io/controller-runtime/pkg/client"
	"sigs.k8s.io/controller-runtime/pkg/client/apiutil"
	kjson "sigs.k8s.io/json"
)

type ctxKey int

const (
	passKey ctxKey = iota
	actorKey
)

// WithPass attaches the current reconcile pass to the context handed to a controller.
func WithPass(ctx context.Context, p *Pass) context.Context {
	return context.WithValue(ctx, passKey, p)
}

// WithActor names a non-controller actor (adversary, workload, user, gc).
func WithActor(ctx context.Context, actor string) context.Context {
	return context.WithValue(ctx, actorKey, actor)
}

func PassFrom(ctx context.Context) *Pass {
	p, _ := ctx.Value(passKey).(*Pass)
	return p
}

// Role describes how a client reads.
type Role struct {
	Name string
	// Lag returns how many commits behind reads of this client are (nil / 0 = fresh).
	Lag func() int64
	// OnlyLabelled restricts reads to objects matching the selector (the dynamic cache's informer filter).
	Selector labels.Selector
	// HideYoung: objects created within the last HideYoung() commits are invisible to this client
	// (an informer cache that has not yet received the create event; everything else is served fresh).
	HideYoung func() int64
	// HideYoungKind, when set and non-negative for a kind, replaces HideYoung for objects of that kind (informers are per
	// kind: one may lag while the others are current).
	HideYoungKind func(kind string) int64
	// ResetOnRead: typed objects are fully replaced on Get/List (informer-cache clients) instead of decoded onto.
	ResetOnRead bool
}

// hideFor: how many requests an object of the kind stays invisible to this client after its creation.
func (c *Client) hideFor(kind string) int64 {
	var n int64
	if c.role.HideYoung != nil {
		n = c.role.HideYoung()
	}
	if c.role.HideYoungKind != nil {
		if k := c.role.HideYoungKind(kind); k >= 0 {
			n = k
		}
	}
	return n
}

type Client struct {
	store  *Store
	scheme *runtime.Scheme
	mapper meta.RESTMapper
	role   Role
}

var _ client.Client = (*Client)(nil)

func (s *Store) Client(scheme *runtime.Scheme, role Role) *Client {
	return &Client{store: s, scheme: scheme, mapper: s.RESTMapper(), role: role}
}

func (c *Client) Store() *Store                    { return c.store }
func (c *Client) Scheme() *runtime.Scheme          { return c.scheme }
func (c *Client) RESTMapper() meta.RESTMapper      { return c.mapper }
func (c *Client) Status() client.SubResourceWriter { return &subWriter{c, "status"} }
func (c *Client) SubResource(sub string) client.SubResourceClient {
	return &subWriter{c, sub}
}

func (c *Client) GroupVersionKindFor(obj runtime.Object) (schema.GroupVersionKind, error) {
	return apiutil.GVKForObject(obj, c.scheme)
}

func (c *Client) IsObjectNamespaced(obj runtime.Object) (bool, error) {
	gvk, err := c.GroupVersionKindFor(obj)
	if err != nil {
		return false, err
	}
	k, ok := c.store.Kind(gvk.GroupKind())
	if !ok {
		return false, noMatch(gvk.GroupKind())
	}
	return k.Namespaced, nil
}

func (c *Client) kindFor(obj runtime.Object) (*KindInfo, schema.GroupVersionKind, error) {
	gvk, err := apiutil.GVKForObject(obj, c.scheme)
	if err != nil {
		return nil, gvk, err
	}
	gvk.Kind = strings.TrimSuffix(gvk.Kind, "List")
	k, ok := c.store.Kind(gvk.GroupKind())
	if !ok || k.GVK.Version != gvk.Version {
		return nil, gvk, &meta.NoKindMatchError{GroupKind: gvk.GroupKind(), SearchedVersions: []string{gvk.Version}}
	}
	return k, gvk, nil
}

func toObj(obj runtime.Object, gvk schema.GroupVersionKind) (Obj, error) {
	if u, ok := obj.(*unstructured.Unstructured); ok {
		return normalize(u.Object)
	}
	o, err := normalize(obj)
	if err != nil {
		return nil, err
	}
	apiVersion, kind := gvk.ToAPIVersionAndKind()
	o["apiVersion"], o["kind"] = apiVersion, kind
	return o, nil
}

// into writes a server response into the caller's object the way the real clients do:
// unstructured content is replaced, typed objects are decoded onto the existing struct.
func into(res Obj, obj runtime.Object, reset bool) error {
	if u, ok := obj.(*unstructured.Unstructured); ok {
		u.Object = deepCopy(res)
		return nil
	}
	b, err := json.Marshal(res)
	if err != nil {
		return err
	}
	if reset {
		v := reflect.ValueOf(obj)
		if v.Kind() == reflect.Ptr && !v.IsNil() {
			v.Elem().Set(reflect.Zero(v.Elem().Type()))
		}
	}
	return kjson.UnmarshalCaseSensitivePreserveInts(b, obj)
}

func (c *Client) actor(ctx context.Context) (string, *Pass) {
	if p := PassFrom(ctx); p != nil {
		return p.Actor, p
	}
	if a, ok := ctx.Value(actorKey).(string); ok {
		return a, nil
	}
	return "unknown", nil
}

func (c *Client) newRequest(ctx context.Context, verb, sub string, gvk schema.GroupVersionKind) *Request {
	actor, pass := c.actor(ctx)
	return &Request{Actor: actor, Pass: pass, Role: c.role.Name, Verb: verb, Sub: sub, GVK: gvk}
}

// begin runs the scheduling gate and fault decision (no lock held).
func (c *Client) begin(ctx context.Context, req *Request) (FaultKind, error) {
	if c.store.Gate != nil {
		c.store.Gate(ctx, req)
	}
	if err := ctx.Err(); err != nil {
		return FaultErrorBefore, err
	}
	if c.store.Fault != nil {
		return c.store.Fault(req)
	}
	return FaultNone, nil
}

// finish records the request (lock held by caller).
func (s *Store) recordLocked(req *Request) {
	s.reqSeq++
	req.Seq = s.reqSeq
	req.StoreSeq = s.seq
	req.store = s
	if s.keep {
		s.trace = append(s.trace, req)
	}
	if req.Pass != nil {
		req.Pass.Requests = append(req.Pass.Requests, req)
	}
	for _, m := range s.monitors {
		m(req)
	}
}

func (c *Client) lag() int64 {
	if c.role.Lag == nil {
		return 0
	}
	return c.role.Lag()
}

func (c *Client) Get(ctx context.Context, key client.ObjectKey, obj client.Object, _ ...client.GetOption) error {
	k, gvk, err := c.kindFor(obj)
	req := c.newRequest(ctx, "get", "", gvk)
	req.Key = Key{gvk.Group, gvk.Kind, key.Namespace, key.Name}
	fk, ferr := c.begin(ctx, req)
	s := c.store
	s.mu.Lock()
	if fk == FaultCrash {
		req.Fault = "crash"
		req.Err = ErrCrashed
		s.recordLocked(req)
		s.mu.Unlock()
		panic(CrashSentinel{req.Seq})
	}
	defer s.mu.Unlock()
	defer s.recordLocked(req)
	if fk == FaultErrorBefore {
		req.Fault, req.Err = "error", ferr
		return ferr
	}
	if err != nil {
		req.Err = err
		return err
	}
	skey := s.keyFor(k, key.Namespace, key.Name)
	req.Key = skey
	cur := s.asOfLocked(skey, c.lag())
	if cur != nil && c.role.Selector != nil && !c.role.Selector.Matches(labelsOf(cur)) {
		cur = nil
	}
	if cur != nil && s.youngLocked(skey, c.hideFor(skey.Kind)) {
		cur = nil
	}
	if cur == nil {
		req.Err = k.notFound(key.Name)
		return req.Err
	}
	req.Post = deepCopy(cur)
	if err := into(cur, obj, c.role.ResetOnRead); err != nil {
		req.Err = err
		return err
	}
	return nil
}

func (c *Client) List(ctx context.Context, list client.ObjectList, opts ...client.ListOption) error {
	k, gvk, err := c.kindFor(list)
	req := c.newRequest(ctx, "list", "", gvk)
	lo := client.ListOptions{}
	lo.ApplyOptions(opts)
	req.Key = Key{gvk.Group, gvk.Kind, lo.Namespace, ""}
	fk, ferr := c.begin(ctx, req)
	s := c.store
	s.mu.Lock()
	if fk == FaultCrash {
		req.Fault = "crash"
		req.Err = ErrCrashed
		s.recordLocked(req)
		s.mu.Unlock()
		panic(CrashSentinel{req.Seq})
	}
	defer s.mu.Unlock()
	defer s.recordLocked(req)
	if fk == FaultErrorBefore {
		req.Fault, req.Err = "error", ferr
		return ferr
	}
	if err != nil {
		req.Err = err
		return err
	}
	sel := lo.LabelSelector
	hide := c.hideFor(k.GVK.Kind)
	items := s.listLocked(k, lo.Namespace, sel, c.lag(), func(o Obj) bool {
		if c.role.Selector != nil && !c.role.Selector.Matches(labelsOf(o)) {
			return false
		}
		if hide > 0 && s.youngLocked(s.keyFor(k, strField(o, "metadata", "namespace"), strField(o, "metadata", "name")), hide) {
			return false
		}
		if lo.FieldSelector != nil {
			for _, r := range lo.FieldSelector.Requirements() {
				var got string
				switch r.Field {
				case "metadata.name":
					got = strField(o, "metadata", "name")
				case "metadata.namespace":
					got = strField(o, "metadata", "namespace")
				default:
					return false
				}
				if got != r.Value {
					return false
				}
			}
		}
		return true
	})
	req.ListCount = len(items)
	listObj := Obj{
		"apiVersion": gvk.GroupVersion().String(), "kind": gvk.Kind + "List",
		"metadata": map[string]any{"resourceVersion": fmt.Sprint(s.seq)},
	}
	l := make([]any, len(items))
	for i := range items {
		l[i] = items[i]
	}
	listObj["items"] = l
	req.Post = Obj{"items": deepCopyAny(l)}
	if ul, ok := list.(*unstructured.UnstructuredList); ok {
		ul.Object = Obj{"apiVersion": listObj["apiVersion"], "kind": listObj["kind"], "metadata": listObj["metadata"]}
		ul.Items = make([]unstructured.Unstructured, len(items))
		for i := range items {
			ul.Items[i] = unstructured.Unstructured{Object: items[i]}
		}
		return nil
	}
	b, err := json.Marshal(listObj)
	if err != nil {
		req.Err = err
		return err
	}
	v := reflect.ValueOf(list)
	if v.Kind() == reflect.Ptr && !v.IsNil() {
		v.Elem().Set(reflect.Zero(v.Elem().Type()))
	}
	if err := kjson.UnmarshalCaseSensitivePreserveInts(b, list); err != nil {
		req.Err = err
		return err
	}
	return nil
}

// ErrCrashed marks a request that was never sent because the process crashed at that point.
var ErrCrashed = fmt.Errorf("simkube: process crashed before this request was sent")

type writeFn func(s *Store, k *KindInfo, req *Request) (Obj, error)

// write is the common path of all mutating requests.
func (c *Client) write(ctx context.Context, req *Request, kerr error, k *KindInfo, obj runtime.Object, fn writeFn) error {
	fk, ferr := c.begin(ctx, req)
	s := c.store
	s.mu.Lock()
	if fk == FaultCrash {
		req.Fault = "crash"
		req.Err = ErrCrashed
		s.recordLocked(req)
		s.mu.Unlock()
		panic(CrashSentinel{req.Seq})
	}
	defer s.mu.Unlock()
	defer s.recordLocked(req)
	if fk == FaultErrorBefore {
		req.Fault, req.Err = "error", ferr
		return ferr
	}
	if kerr != nil {
		req.Err = kerr
		return kerr
	}
	res, err := fn(s, k, req)
	if err != nil {
		req.Err = err
		return err
	}
	if res != nil {
		delete(res, ownerRefOwnersKey)
	}
	if req.Verb == "delete" {
		if req.Changed && !req.DryRun {
			req.Post = deepCopy(s.objs[req.Key])
		} else {
			req.Post = deepCopy(req.Pre)
		}
	} else {
		req.Post = deepCopy(res)
		if req.Changed && !req.DryRun {
			// terminating object whose last finalizer was removed
			if _, still := s.objs[req.Key]; !still {
				req.Post = nil
			}
		}
	}
	if fk == FaultLostResponse {
		req.Fault = "lost-response"
		ferr = apierrors.NewTimeoutError("simkube: response lost", 1)
		return ferr
	}
	if req.Verb != "delete" && obj != nil && res != nil {
		if err := into(res, obj, false); err != nil {
			return err
		}
	}
	return nil
}

func (c *Client) Create(ctx context.Context, obj client.Object, opts ...client.CreateOption) error {
	k, gvk, kerr := c.kindFor(obj)
	co := client.CreateOptions{}
	co.ApplyOptions(opts)
	req := c.newRequest(ctx, "create", "", gvk)
	req.DryRun = len(co.DryRun) > 0
	req.FieldManager = co.FieldManager
	req.Key = Key{gvk.Group, gvk.Kind, obj.GetNamespace(), obj.GetName()}
	body, berr := toObj(obj, gvk)
	if berr != nil && kerr == nil {
		kerr = berr
	}
	req.Body = deepCopy(body)
	return c.write(ctx, req, kerr, k, obj, func(s *Store, k *KindInfo, req *Request) (Obj, error) {
		mgr := req.FieldManager
		if mgr == "" {
			mgr = "simkube-client"
		}
		withMF, err := s.ssa.update(k.GVK, nil, body, mgr)
		if err != nil {
			return nil, apierrors.NewBadRequest(err.Error())
		}
		return s.createLocked(k, withMF, writeOpts{dryRun: req.DryRun, fieldManager: mgr}, req)
	})
}

func (c *Client) update(ctx context.Context, obj client.Object, sub string, dryRun bool, fieldManager string) error {
	k, gvk, kerr := c.kindFor(obj)
	req := c.newRequest(ctx, "update", sub, gvk)
	req.DryRun = dryRun
	req.FieldManager = fieldManager
	req.Key = Key{gvk.Group, gvk.Kind, obj.GetNamespace(), obj.GetName()}
	body, berr := toObj(obj, gvk)
	if berr != nil && kerr == nil {
		kerr = berr
	}
	req.Body = deepCopy(body)
	return c.write(ctx, req, kerr, k, obj, func(s *Store, k *KindInfo, req *Request) (Obj, error) {
		if sub == "status" && !k.StatusSub {
			return nil, apierrors.NewNotFound(k.GR(), obj.GetName()+"/status")
		}
		key := s.keyFor(k, obj.GetNamespace(), obj.GetName())
		req.Key = key
		cur, ok := s.objs[key]
		if !ok {
			return nil, k.notFound(obj.GetName())
		}
		req.Pre = deepCopy(cur)
		if rv := strField(body, "metadata", "resourceVersion"); rv != "" && rv != strField(cur, "metadata", "resourceVersion") {
			return nil, k.conflict(obj.GetName(), "the object has been modified; please apply your changes to the latest version and try again")
		}
		if uid := strField(body, "metadata", "uid"); uid != "" && uid != strField(cur, "metadata", "uid") {
			return nil, k.conflict(obj.GetName(), fmt.Sprintf("Precondition failed: UID in precondition: %v, UID in object meta: %v", uid, strField(cur, "metadata", "uid")))
		}
		mgr := fieldManager
		if mgr == "" {
			mgr = "simkube-client"
		}
		next := deepCopy(body)
		metaOf(next)["managedFields"] = deepCopyAny(metaOf(cur)["managedFields"])
		if metaOf(next)["managedFields"] == nil {
			delete(metaOf(next), "managedFields")
		}
		withMF, err := s.ssa.update(k.GVK, cur, next, mgr)
		if err != nil {
			return nil, apierrors.NewBadRequest(err.Error())
		}
		s.pruneAppliersLocked(key, withMF)
		return s.finishUpdateLocked(k, key, cur, withMF, sub, writeOpts{dryRun: dryRun, fieldManager: mgr}, req)
	})
}

func (c *Client) Update(ctx context.Context, obj client.Object, opts ...client.UpdateOption) error {
	uo := client.UpdateOptions{}
	uo.ApplyOptions(opts)
	return c.update(ctx, obj, "", len(uo.DryRun) > 0, uo.FieldManager)
}

func (s *Store) pruneAppliersLocked(key Key, next Obj) {
	t := s.refAppliers[key]
	if t == nil {
		return
	}
	present := map[string]bool{}
	l, _ := metaOf(next)["ownerReferences"].([]any)
	for _, r := range l {
		present[refUID(r)] = true
	}
	for uid := range t {
		if !present[uid] {
			delete(t, uid)
		}
	}
}

func (c *Client) patch(ctx context.Context, obj client.Object, p client.Patch, sub string, po *client.PatchOptions) error {
	k, gvk, kerr := c.kindFor(obj)
	req := c.newRequest(ctx, "patch", sub, gvk)
	req.DryRun = len(po.DryRun) > 0
	req.FieldManager = po.FieldManager
	req.Force = po.Force != nil && *po.Force
	req.PatchType = p.Type()
	req.Key = Key{gvk.Group, gvk.Kind, obj.GetNamespace(), obj.GetName()}
	data, derr := p.Data(obj)
	if derr != nil && kerr == nil {
		kerr = derr
	}
	var decoded any
	if len(data) > 0 {
		if data[0] == '[' {
			var l []any
			_ = json.Unmarshal(data, &l)
			decoded = l
		} else if m, err := decodeJSON(data); err == nil {
			decoded = m
		}
	}
	req.Body = decoded
	name, ns := obj.GetName(), obj.GetNamespace()
	return c.write(ctx, req, kerr, k, obj, func(s *Store, k *KindInfo, req *Request) (Obj, error) {
		if sub == "status" && !k.StatusSub {
			return nil, apierrors.NewNotFound(k.GR(), name+"/status")
		}
		key := s.keyFor(k, ns, name)
		req.Key = key
		cur, exists := s.objs[key]
		if exists {
			req.Pre = deepCopy(cur)
		}
		mgr := req.FieldManager
		wo := writeOpts{dryRun: req.DryRun, fieldManager: mgr, force: req.Force}
		switch p.Type() {
		case types.ApplyPatchType:
			if mgr == "" {
				return nil, apierrors.NewBadRequest("PatchOptions.meta.k8s.io \"\" is invalid: fieldManager: Required value: is required for apply patch")
			}
			applied, ok := decoded.(map[string]any)
			if !ok {
				return nil, apierrors.NewBadRequest("failed to create typed patch object: invalid apply configuration")
			}
			if an := strField(applied, "metadata", "name"); an != "" && an != name {
				return nil, apierrors.NewBadRequest(fmt.Sprintf("name in URL does not match name in object: %q vs %q", name, an))
			}
			if k.Namespaced {
				if ans := strField(applied, "metadata", "namespace"); ans != "" && ans != ns {
					return nil, apierrors.NewBadRequest("the namespace of the provided object does not match the namespace sent on the request")
				}
			}
			if !exists {
				res, appl, err := s.ssa.apply(k.GVK, nil, applied, mgr, req.Force, nil)
				if err != nil {
					return nil, err
				}
				m := metaOf(res)
				m["name"] = name
				if k.Namespaced {
					m["namespace"] = ns
				}
				out, err := s.createLocked(k, res, wo, req)
				if err == nil && !req.DryRun {
					s.setAppliersLocked(key, appl)
				}
				return out, err
			}
			res, appl, err := s.ssa.apply(k.GVK, cur, applied, mgr, req.Force, s.refAppliers[key])
			if err != nil {
				return nil, err
			}
			out, err := s.finishUpdateLocked(k, key, cur, res, sub, wo, req)
			if err == nil && !req.DryRun {
				s.setAppliersLocked(key, appl)
			}
			return out, err
		case types.MergePatchType, types.JSONPatchType:
			if !exists {
				return nil, k.notFound(name)
			}
			curJSON, err := json.Marshal(cur)
			if err != nil {
				return nil, err
			}
			var nextJSON []byte
			if p.Type() == types.MergePatchType {
				if m, ok := decoded.(map[string]any); ok {
					if rv := strField(m, "metadata", "resourceVersion"); rv != "" && rv != strField(cur, "metadata", "resourceVersion") {
						return nil, k.conflict(name, "the object has been modified; please apply your changes to the latest version and try again")
					}
					if uid := strField(m, "metadata", "uid"); uid != "" && uid != strField(cur, "metadata", "uid") {
						return nil, k.conflict(name, "Precondition failed: UID in precondition")
					}
				}
				nextJSON, err = jsonpatch.MergePatch(curJSON, data)
			} else {
				var jp jsonpatch.Patch
				jp, err = jsonpatch.DecodePatch(data)
				if err == nil {
					nextJSON, err = jp.Apply(curJSON)
				}
			}
			if err != nil {
				return nil, apierrors.NewBadRequest(err.Error())
			}
			next, err := decodeJSON(nextJSON)
			if err != nil {
				return nil, apierrors.NewBadRequest(err.Error())
			}
			if mgr == "" {
				mgr = "simkube-client"
			}
			// json patches of managedFields (csaupgrade) are honoured; other writers go through the field manager
			if !reflect.DeepEqual(metaOf(next)["managedFields"], metaOf(cur)["managedFields"]) {
				s.pruneAppliersLocked(key, next)
				return s.finishUpdateLocked(k, key, cur, next, sub, wo, req)
			}
			withMF, err := s.ssa.update(k.GVK, cur, next, mgr)
			if err != nil {
				return nil, apierrors.NewBadRequest(err.Error())
			}
			s.pruneAppliersLocked(key, withMF)
			return s.finishUpdateLocked(k, key, cur, withMF, sub, wo, req)
		default:
			return nil, apierrors.NewGenericServerResponse(415, "patch", k.GR(), name, "unsupported patch type "+string(p.Type()), 0, false)
		}
	})
}

func (s *Store) setAppliersLocked(key Key, t map[string]map[string]bool) {
	if s.refAppliers == nil {
		s.refAppliers = map[Key]map[string]map[string]bool{}
	}
	if _, exists := s.objs[key]; !exists {
		delete(s.refAppliers, key)
		return
	}
	s.refAppliers[key] = t
}

func (c *Client) Patch(ctx context.Context, obj client.Object, p client.Patch, opts ...client.PatchOption) error {
	po := &client.PatchOptions{}
	po.ApplyOptions(opts)
	return c.patch(ctx, obj, p, "", po)
}

func (c *Client) Delete(ctx context.Context, obj client.Object, opts ...client.DeleteOption) error {
	k, gvk, kerr := c.kindFor(obj)
	do := client.DeleteOptions{}
	do.ApplyOptions(opts)
	req := c.newRequest(ctx, "delete", "", gvk)
	req.DryRun = len(do.DryRun) > 0
	req.Key = Key{gvk.Group, gvk.Kind, obj.GetNamespace(), obj.GetName()}
	if do.Preconditions != nil {
		req.Precond = Preconditions{UID: do.Preconditions.UID, ResourceVersion: do.Preconditions.ResourceVersion}
	}
	if do.PropagationPolicy != nil {
		req.Propagation = string(*do.PropagationPolicy)
	}
	name, ns := obj.GetName(), obj.GetNamespace()
	return c.write(ctx, req, kerr, k, nil, func(s *Store, k *KindInfo, req *Request) (Obj, error) {
		res, err := s.deleteLocked(k, ns, name, req.Precond, req.Propagation, req.DryRun, req)
		if err == nil && !req.DryRun {
			if _, still := s.objs[req.Key]; !still && s.refAppliers != nil {
				delete(s.refAppliers, req.Key)
			}
		}
		return res, err
	})
}

func (c *Client) DeleteAllOf(ctx context.Context, obj client.Object, opts ...client.DeleteAllOfOption) error {
	return apierrors.NewMethodNotSupported(schema.GroupResource{}, "deletecollection (not modelled by simkube)")
}

type subWriter struct {
	c   *Client
	sub string
}

func (w *subWriter) Get(context.Context, client.Object, client.Object, ...client.SubResourceGetOption) error {
	return apierrors.NewMethodNotSupported(schema.GroupResource{}, "subresource get (not modelled by simkube)")
}

func (w *subWriter) Create(context.Context, client.Object, client.Object, ...client.SubResourceCreateOption) error {
	return apierrors.NewMethodNotSupported(schema.GroupResource{}, "subresource create (not modelled by simkube)")
}

func (w *subWriter) Update(ctx context.Context, obj client.Object, opts ...client.SubResourceUpdateOption) error {
	uo := client.SubResourceUpdateOptions{}
	uo.ApplyOptions(opts)
	return w.c.update(ctx, obj, w.sub, len(uo.DryRun) > 0, uo.FieldManager)
}

func (w *subWriter) Patch(ctx context.Context, obj client.Object, p client.Patch, opts ...client.SubResourcePatchOption) error {
	so := client.SubResourcePatchOptions{}
	so.ApplyOptions(opts)
	return w.c.patch(ctx, obj, p, w.sub, &so.PatchOptions)
}

var _ = metav1.Now
