// Package simcache provides a scripted informer map for the real dynamiccache.Cache
// (constructed through the verif hook NewCacheWithInformerMap): informer creation and
// deletion are recorded, can be made to fail, and the informers are fakes whose event
// handlers the harness can fire.
package simcache

import (
	"context"
	"errors"
	"fmt"
	"sync"
	"time"

	"k8s.io/apimachinery/pkg/runtime"
	"k8s.io/apimachinery/pkg/runtime/schema"
	"k8s.io/client-go/tools/cache"
	"sigs.k8s.io/controller-runtime/pkg/client"
)

type ctxKey struct{}

// WithOp tags a context with the name of the cache operation the harness is about to
// issue, so that the scripted map can tell who caused an informer creation.
func WithOp(ctx context.Context, op string) context.Context {
	return context.WithValue(ctx, ctxKey{}, op)
}

func opOf(ctx context.Context) string {
	s, _ := ctx.Value(ctxKey{}).(string)
	return s
}

// FakeInformer implements the part of cache.SharedIndexInformer the dynamic cache uses.
type FakeInformer struct {
	cache.SharedIndexInformer // nil: any other method panics, which is a harness error
	GVK                       schema.GroupVersionKind
	ID                        int
	CreatedBy                 string

	mu       sync.Mutex
	handlers []cache.ResourceEventHandler
	stopped  bool
}

type reg struct{}

func (reg) HasSynced() bool { return true }

func (f *FakeInformer) AddEventHandler(h cache.ResourceEventHandler) (cache.ResourceEventHandlerRegistration, error) {
	f.mu.Lock()
	defer f.mu.Unlock()
	f.handlers = append(f.handlers, h)
	return reg{}, nil
}

func (f *FakeInformer) AddEventHandlerWithResyncPeriod(h cache.ResourceEventHandler, _ time.Duration) (cache.ResourceEventHandlerRegistration, error) {
	return f.AddEventHandler(h)
}

func (f *FakeInformer) HasSynced() bool { return true }

func (f *FakeInformer) IsStopped() bool { f.mu.Lock(); defer f.mu.Unlock(); return f.stopped }

func (f *FakeInformer) Handlers() int { f.mu.Lock(); defer f.mu.Unlock(); return len(f.handlers) }

func (f *FakeInformer) snapshot() []cache.ResourceEventHandler {
	f.mu.Lock()
	defer f.mu.Unlock()
	if f.stopped {
		return nil
	}
	return append([]cache.ResourceEventHandler{}, f.handlers...)
}

// FireAdd / FireUpdate / FireDelete deliver an event to every attached handler (a stopped informer delivers nothing).
func (f *FakeInformer) FireAdd(obj any) {
	for _, h := range f.snapshot() {
		h.OnAdd(obj, false)
	}
}

func (f *FakeInformer) FireUpdate(oldObj, newObj any) {
	for _, h := range f.snapshot() {
		h.OnUpdate(oldObj, newObj)
	}
}

func (f *FakeInformer) FireDelete(obj any) {
	for _, h := range f.snapshot() {
		h.OnDelete(obj)
	}
}

type Event struct {
	Kind string // "create", "create-failed", "delete", "get"
	GVK  schema.GroupVersionKind
	Op   string // harness operation that caused it (from the context)
	ID   int
}

var ErrScriptedStartFailure = errors.New("scripted informer start failure")

// Map is a scripted informer map (satisfies dynamiccache's informerMap contract).
type Map struct {
	mu        sync.Mutex
	informers map[schema.GroupVersionKind]*FakeInformer
	all       []*FakeInformer
	events    []Event
	creations int
	// FailCreation: the n-th creation attempt (1-based) fails when FailCreation[n] is set.
	FailCreation map[int]bool
	// Reader returns the reader served for a kind.
	Reader func(gvk schema.GroupVersionKind) client.Reader
	// OnGet is called at the entry of every Get (outside the map's lock): delay injection point.
	OnGet func(ctx context.Context, gvk schema.GroupVersionKind)
}

func NewMap(reader func(gvk schema.GroupVersionKind) client.Reader) *Map {
	return &Map{informers: map[schema.GroupVersionKind]*FakeInformer{}, FailCreation: map[int]bool{}, Reader: reader}
}

func (m *Map) Get(ctx context.Context, gvk schema.GroupVersionKind, _ runtime.Object) (cache.SharedIndexInformer, client.Reader, error) {
	if m.OnGet != nil {
		m.OnGet(ctx, gvk)
	}
	m.mu.Lock()
	defer m.mu.Unlock()
	if inf, ok := m.informers[gvk]; ok {
		m.events = append(m.events, Event{"get", gvk, opOf(ctx), inf.ID})
		return inf, m.Reader(gvk), nil
	}
	m.creations++
	if m.FailCreation[m.creations] {
		m.events = append(m.events, Event{"create-failed", gvk, opOf(ctx), 0})
		return nil, nil, fmt.Errorf("%w (attempt %d, %s)", ErrScriptedStartFailure, m.creations, gvk.Kind)
	}
	inf := &FakeInformer{GVK: gvk, ID: len(m.all) + 1, CreatedBy: opOf(ctx)}
	m.informers[gvk] = inf
	m.all = append(m.all, inf)
	m.events = append(m.events, Event{"create", gvk, opOf(ctx), inf.ID})
	return inf, m.Reader(gvk), nil
}

func (m *Map) Delete(ctx context.Context, gvk schema.GroupVersionKind) error {
	m.mu.Lock()
	defer m.mu.Unlock()
	inf, ok := m.informers[gvk]
	if !ok {
		m.events = append(m.events, Event{"delete", gvk, opOf(ctx), 0})
		return nil
	}
	inf.mu.Lock()
	inf.stopped = true
	inf.mu.Unlock()
	delete(m.informers, gvk)
	m.events = append(m.events, Event{"delete", gvk, opOf(ctx), inf.ID})
	return nil
}

// Live returns the running informer for a kind, if any.
func (m *Map) Live(gvk schema.GroupVersionKind) *FakeInformer {
	m.mu.Lock()
	defer m.mu.Unlock()
	return m.informers[gvk]
}

func (m *Map) LiveKinds() []schema.GroupVersionKind {
	m.mu.Lock()
	defer m.mu.Unlock()
	out := make([]schema.GroupVersionKind, 0, len(m.informers))
	for k := range m.informers {
		out = append(out, k)
	}
	return out
}

func (m *Map) All() []*FakeInformer {
	m.mu.Lock()
	defer m.mu.Unlock()
	return append([]*FakeInformer{}, m.all...)
}

func (m *Map) Events() []Event {
	m.mu.Lock()
	defer m.mu.Unlock()
	return append([]Event{}, m.events...)
}

func (m *Map) Creations() int { m.mu.Lock(); defer m.mu.Unlock(); return m.creations }
