package chk16

import (
	"context"
	"encoding/json"
	"fmt"
	"k8s.io/apimachinery/pkg/apis/meta/v1/unstructured"
	"math/rand"
	"package-operator.run/internal/verifharness/driver"
	"reflect"

	apierrors "k8s.io/apimachinery/pkg/api/errors"
	"k8s.io/apimachinery/pkg/runtime/schema"
	"k8s.io/apimachinery/pkg/util/validation/field"

	corev1alpha1 "package-operator.run/apis/core/v1alpha1"
	"package-operator.run/internal/adapters"
	"package-operator.run/internal/apis/manifests"
	"package-operator.run/internal/packages"
	"package-operator.run/internal/verifharness/pkomodel"
	"package-operator.run/internal/verifharness/scen"
	"package-operator.run/internal/verifharness/simkube"
)

func injectFault(e *scen.Env, r *rand.Rand) {
	kind := r.Intn(3)
	skip := r.Intn(3)
	a := &scen.Armed{Match: func(req *simkube.Request) bool {
		if !req.IsWrite() || req.DryRun {
			return false
		}
		if skip > 0 {
			skip--
			return false
		}
		return true
	}}
	switch kind {
	case 0:
		a.Fault, a.Err, a.Desc = simkube.FaultErrorBefore, apierrors.NewConflict(schema.GroupResource{Resource: "objects"}, "injected", fmt.Errorf("injected conflict")), "injected 409"
	case 1:
		a.Fault, a.Err, a.Desc = simkube.FaultErrorBefore, apierrors.NewInternalError(fmt.Errorf("injected")), "injected 500"
	default:
		a.Fault, a.Desc = simkube.FaultLostResponse, "effect committed, response lost"
	}
	a.Desc += fmt.Sprintf(" at an upcoming write (skip %d)", skip)
	e.Arm(a)
}

// expandedTemplate returns the stored ObjectDeployment template with the slices inlined.
func (w *world) expandedTemplate(ns, name string) (any, bool) {
	o := w.e.W.Store.Peek(scen.PKO("ObjectDeployment").GroupKind(), ns, name)
	d := pkomodel.DeploymentFrom(o)
	if d == nil {
		return nil, false
	}
	spec := d.Template.Spec.DeepCopy()
	for i := range spec.Phases {
		for _, sl := range spec.Phases[i].Slices {
			so := w.e.W.Store.Peek(scen.PKO("ObjectSlice").GroupKind(), ns, sl)
			if so == nil {
				w.e.Report("C14:template-references-missing-slice", fmt.Sprintf("ObjectDeployment %s/%s references ObjectSlice %s which does not exist", ns, name, sl))
				continue
			}
			b, _ := json.Marshal(so)
			var slice corev1alpha1.ObjectSlice
			_ = json.Unmarshal(b, &slice)
			spec.Phases[i].Objects = append(spec.Phases[i].Objects, slice.Objects...)
		}
		spec.Phases[i].Slices = nil
	}
	// the CRD defaults collisionProtection to Prevent
	for i := range spec.Phases {
		for j := range spec.Phases[i].Objects {
			if spec.Phases[i].Objects[j].CollisionProtection == corev1alpha1.CollisionProtectionPrevent {
				spec.Phases[i].Objects[j].CollisionProtection = ""
			}
		}
	}
	return pkomodel.Canon(spec), true
}

// checkFreshRender: a changed image, config or component results in an ObjectDeployment template equal to a fresh render.
func (w *world) checkFreshRender(name string) {
	o := w.e.W.Store.Peek(scen.PKO("Package").GroupKind(), "ns", name)
	if o == nil {
		return
	}
	b, _ := json.Marshal(o)
	var pkg corev1alpha1.Package
	if json.Unmarshal(b, &pkg) != nil || pkg.Spec.Paused {
		return
	}
	if w.invalidClass(&pkg) != "" {
		return
	}
	if im := w.reg.images[pkg.Spec.Image]; im != nil && im.Spec.Constraint == "unique" && len(w.pkgs) > 1 {
		// uniqueness is judged against the sibling packages as they were when this spec was deployed; siblings edited later do
		// not re-trigger an unchanged package, so the state at rest says nothing about that decision
		w.e.Count("c16_fresh_render_skipped_unique_with_siblings")
		return
	}
	ctx := context.Background()
	raw := &packages.RawPackage{Files: w.reg.images[pkg.Spec.Image].Spec.Files()}
	loaded, err := packages.DefaultStructuralLoader.LoadComponent(ctx, raw, pkg.Spec.Component)
	if err != nil {
		w.e.Report("C16:harness-predicate-disagrees", fmt.Sprintf("package classified valid but does not load: %v", err))
		return
	}
	tc := (&adapters.GenericPackage{Package: pkg}).TemplateContext()
	cfg := map[string]any{}
	if tc.Config != nil {
		_ = json.Unmarshal(tc.Config.Raw, &cfg)
	}
	if errs, err := packages.AdmitPackageConfiguration(ctx, cfg, loaded.Manifest, field.NewPath("spec", "config")); err != nil || len(errs) > 0 {
		w.e.Report("C16:harness-predicate-disagrees", fmt.Sprintf("package classified valid but config not admitted: %v %v", errs, err))
		return
	}
	validators := append(packages.PackageValidatorList{}, packages.DefaultPackageValidators...)
	validators = append(validators, packages.PackageScopeValidator(manifests.PackageManifestScopeNamespaced))
	inst, err := packages.RenderPackageInstance(ctx, loaded, packages.PackageRenderContext{
		Package: tc.Package, Config: cfg, Images: map[string]string{}, Environment: w.env,
	}, validators, packages.DefaultObjectValidators)
	if err != nil {
		w.e.Report("C16:harness-predicate-disagrees", fmt.Sprintf("package classified valid but does not render: %v", err))
		return
	}
	want := pkomodel.Canon(packages.RenderObjectSetTemplateSpec(inst))
	got, ok := w.expandedTemplate("ns", name)
	w.e.Count("c16_fresh_render_compared")
	if !ok {
		w.e.Report("C16:valid-package-not-deployed", fmt.Sprintf("Package ns/%s (image %s) is valid and settled but has no ObjectDeployment", name, pkg.Spec.Image))
		return
	}
	if !reflect.DeepEqual(want, got) {
		wb, _ := json.Marshal(want)
		gb, _ := json.Marshal(got)
		sig := "C16:deployment-template-differs-from-fresh-render"
		// classification: the controller holds this very spec for deployed (status.unpackedHash equals the spec's hash), and an
		// earlier Package pass changed the ObjectDeployment but failed before it could record the hash of the spec it had deployed
		if pkg.Status.UnpackedHash == (&adapters.GenericPackage{Package: pkg}).GetSpecHash(nil) {
			// the last pass that changed the ObjectDeployment failed after that write (nothing recorded), it had started from a
			// status that already carried today's hash (recorded for an earlier deploy of the same spec), and no later pass
			// touched the ObjectDeployment: the spec went A -> B (deployed, unrecorded) -> A
			var last *simkube.Pass
			for _, p := range w.e.W.Passes {
				if p.Actor != driver.CtrlPackage || p.Key.Name != name {
					continue
				}
				for _, r := range p.Requests {
					if r.GVK.Kind == "ObjectDeployment" && r.IsWrite() && r.Changed {
						last = p
					}
				}
			}
			if last != nil {
				wrote, failed, startedWithTodaysHash := false, false, false
				for _, r := range last.Requests {
					if r.GVK.Kind == "Package" && r.Verb == "get" && r.Err == nil && !wrote {
						if h, _, _ := unstructured.NestedString(r.Post, "status", "unpackedHash"); h == pkg.Status.UnpackedHash {
							startedWithTodaysHash = true
						}
					}
					if r.GVK.Kind == "ObjectDeployment" && r.IsWrite() && r.Changed {
						wrote = true
					}
					if wrote && (r.Err != nil || r.Fault != "") {
						failed = true
					}
				}
				if failed && startedWithTodaysHash {
					sig += ":spec-returned-to-recorded-hash-after-unrecorded-deploy"
				}
			}
		}
		w.e.Report(sig, fmt.Sprintf("Package ns/%s image=%s config=%s component=%q conditions=%+v constraint=%q\n want %s\n got  %s", name, pkg.Spec.Image, rawString(pkg.Spec.Config), pkg.Spec.Component, pkg.Status.Conditions, w.reg.images[pkg.Spec.Image].Spec.Constraint, firstN(string(wb), 1500), firstN(string(gb), 1500)))
	}
}

func firstN(s string, n int) string {
	if len(s) > n {
		return s[:n] + "..."
	}
	return s
}
