// Package chk16 decides property C16 (only valid, admissible packages roll out; unchanged
// packages are left alone) by running the real Package / ClusterPackage controllers with the real
// deployer against a stub image puller serving generated package contents.
package chk16

import (
	"context"
	"encoding/json"
	"fmt"
	"math/rand"
	"reflect"
	"strings"
	"sync"

	"github.com/go-logr/logr"
	metav1 "k8s.io/apimachinery/pkg/apis/meta/v1"
	"k8s.io/apimachinery/pkg/apis/meta/v1/unstructured"
	"k8s.io/apimachinery/pkg/runtime"
	"k8s.io/apimachinery/pkg/types"
	"sigs.k8s.io/controller-runtime/pkg/reconcile"

	corev1alpha1 "package-operator.run/apis/core/v1alpha1"
	"package-operator.run/internal/apis/manifests"
	pkgcontrollers "package-operator.run/internal/controllers/packages"
	"package-operator.run/internal/packages"
	"package-operator.run/internal/verifharness/chkfam"
	"package-operator.run/internal/verifharness/driver"
	"package-operator.run/internal/verifharness/pkggen"
	"package-operator.run/internal/verifharness/pkomodel"
	"package-operator.run/internal/verifharness/scen"
	"package-operator.run/internal/verifharness/simkube"
	"package-operator.run/internal/verifharness/vh"
)

type image struct {
	Spec    *pkggen.Spec
	PullErr bool
}

// registry is the stub image puller.
type registry struct {
	mu     sync.Mutex
	images map[string]*image
	pulls  map[string]int
}

func (r *registry) Pull(ctx context.Context, ref string) (*packages.RawPackage, error) {
	r.mu.Lock()
	defer r.mu.Unlock()
	r.pulls[ref]++
	if p := simkube.PassFrom(ctx); p != nil {
		l, _ := p.Attrs["pulls"].([]string)
		p.Attrs["pulls"] = append(l, ref)
	}
	im, ok := r.images[ref]
	if !ok || im.PullErr {
		return nil, fmt.Errorf("pulling %s: manifest unknown (scripted)", ref)
	}
	return &packages.RawPackage{Files: im.Spec.Files()}, nil
}

type world struct {
	e      *scen.Env
	reg    *registry
	env    manifests.PackageEnvironment
	r      *rand.Rand
	pkgs   []string // package names (namespace "ns")
	c      *vh.Ctx
	lastOK map[string]string // package -> spec JSON at the last pass that wrote the deployment
}

func packageKind(cluster bool) string {
	if cluster {
		return "ClusterPackage"
	}
	return "Package"
}

// invalidClass: why the package as specified must not roll out ("" = valid and admissible).
func (w *world) invalidClass(pkg *corev1alpha1.Package) string {
	im, ok := w.reg.images[pkg.Spec.Image]
	if !ok || im.PullErr {
		return "pull-error"
	}
	s := im.Spec
	for _, d := range pkggen.LoadDefects {
		if s.Defect == d {
			return "load:" + d
		}
	}
	if pkg.Spec.Component != "" {
		if len(s.Components) == 0 {
			return "load:component-not-enabled"
		}
		c, ok := s.Components[pkg.Spec.Component]
		if !ok {
			return "load:component-not-found"
		}
		s = c
	}
	for _, d := range pkggen.ValidationDefects {
		if s.Defect == d {
			return "validation:" + d
		}
	}
	switch s.Constraint {
	case "openshift":
		if w.env.OpenShift == nil {
			w.e.Count(fmt.Sprintf("c16_platform_unmet_list_shape_%d", (len(s.Objects)+s.Variant)%3))
			return "constraint:platform"
		}
	case "k8s-new", "os-then-k8s-new":
		return "constraint:platformVersion"
	case "k8s-ok-then-os-new":
		if w.env.OpenShift != nil {
			return "constraint:platformVersion"
		}
	case "unique":
		n := 0
		for _, k := range driver.Keys(w.e.W.Store, "Package") {
			o := w.e.W.Store.Peek(scen.PKO("Package").GroupKind(), k.Namespace, k.Name)
			if k.Namespace == pkg.Namespace && pkomodel.Labels(o)[pkomodel.PackageLabel] == s.Name {
				n++
			}
		}
		if n > 1 {
			return "constraint:uniqueInScope"
		}
	}
	if s.Schema {
		cfg := map[string]any{}
		if pkg.Spec.Config != nil {
			_ = json.Unmarshal(pkg.Spec.Config.Raw, &cfg)
		}
		if g, ok := cfg["greeting"].(string); !ok || g == "" && false {
			return "config:schema"
		}
		if c, has := cfg["count"]; has {
			if f, ok := c.(float64); !ok || f != float64(int64(f)) {
				return "config:schema"
			}
		}
	}
	return ""
}

// monitor
type monitor struct {
	w *world
}

func isDeployKind(kind string) bool {
	return strings.HasSuffix(kind, "ObjectDeployment") || strings.HasSuffix(kind, "ObjectSlice")
}

func (m *monitor) OnRequest(e *scen.Env, req *simkube.Request) {}

func (m *monitor) OnPassEnd(e *scen.Env, pr driver.PassResult) {
	p := pr.Pass
	if p == nil || p.Actor != driver.CtrlPackage {
		return
	}
	var pkgObj simkube.Obj
	for _, r := range p.Requests {
		if r.Verb == "get" && r.GVK.Kind == "Package" && r.Err == nil && r.Post != nil {
			pkgObj = r.Post
			break
		}
	}
	if pkgObj == nil || pkomodel.Deleting(pkgObj) {
		return
	}
	b, _ := json.Marshal(pkgObj)
	var pkg corev1alpha1.Package
	if json.Unmarshal(b, &pkg) != nil {
		return
	}
	pulls, _ := p.Attrs["pulls"].([]string)
	var writes []*simkube.Request
	var status *simkube.Request
	for _, r := range p.Requests {
		if r.IsWrite() && !r.DryRun && isDeployKind(r.GVK.Kind) && r.Fault != "crash" {
			// the pause flag is propagated independently of unpacking
			if r.Verb == "update" && strings.HasSuffix(r.GVK.Kind, "ObjectDeployment") && onlyPausedChanged(r) {
				continue
			}
			writes = append(writes, r)
		}
		if r.Sub == "status" && r.GVK.Kind == "Package" && r.Verb == "update" {
			status = r
		}
	}
	faulty := pr.Crashed || pr.Panic != nil || hasFault(p)
	ctx := fmt.Sprintf("Package %s/%s image=%s component=%q config=%s", pkg.Namespace, pkg.Name, pkg.Spec.Image, pkg.Spec.Component, rawString(pkg.Spec.Config))
	// (c) unchanged spec: neither re-pulled nor re-rendered
	unpacked := pkomodel.FindCond(pkgObj, "Unpacked")
	if pkg.Status.UnpackedHash != "" && unpacked != nil && unpacked.Status == "True" && unpacked.ObservedGeneration == pkg.Generation && !pkg.Spec.Paused {
		e.Count("c16_passes_on_unchanged_spec")
		if len(pulls) > 0 {
			e.Report("C16:unchanged-package-re-pulled", fmt.Sprintf("%d pull(s) although the spec was unpacked for this generation: %s", len(pulls), ctx))
		}
		if len(writes) > 0 {
			e.Report("C16:unchanged-package-re-rendered", fmt.Sprintf("wrote %s although the spec was unpacked for this generation: %s", writes[0], ctx))
		}
		return
	}
	if pkg.Spec.Paused {
		e.Count("c16_paused_passes")
		ok := 0
		for _, wr := range writes {
			if wr.Err == nil {
				ok++
			}
		}
		if len(pulls) > 0 || ok > 0 {
			e.Report("C16:paused-package-unpacked", ctx)
		}
		return
	}
	if len(pulls) == 0 {
		return
	}
	class := m.w.invalidClass(&pkg)
	if class == "" {
		e.Count("c16_valid_unpack_passes")
		if !faulty && pr.Err == nil && len(writes) > 0 {
			e.Count("c16_valid_deploys")
		}
		return
	}
	e.Count("c16_invalid_class_" + strings.SplitN(class, ":", 2)[0])
	e.Count("c16_invalid_" + class)
	// (a) no create/update of the ObjectDeployment or its slices
	if len(writes) > 0 {
		e.Report("C16:invalid-package-rolled-out:"+class, fmt.Sprintf("%s: the pass wrote %s (and %d more)", ctx, writes[0], len(writes)-1))
	}
	if faulty {
		return
	}
	// (b) what is shown
	var body simkube.Obj
	if status != nil {
		body, _ = status.Body.(map[string]any)
	}
	switch {
	case class == "pull-error":
		if c := pkomodel.FindCond(body, "Unpacked"); status == nil || c == nil || c.Status != "False" {
			e.Report("C16:pull-failure-not-shown", fmt.Sprintf("%s: submitted Unpacked=%+v (status write: %v)", ctx, c, status != nil))
		}
	case strings.HasPrefix(class, "load:") || strings.HasPrefix(class, "constraint:"):
		if c := pkomodel.FindCond(body, "Invalid"); status == nil || c == nil || c.Status != "True" {
			e.Report("C16:invalid-condition-not-shown:"+strings.SplitN(class, ":", 2)[0], fmt.Sprintf("%s (%s): submitted Invalid=%+v (status write: %v, pass error: %v)", ctx, class, c, status != nil, pr.Err))
		}
	}
}

func onlyPausedChanged(r *simkube.Request) bool {
	if r.Pre == nil || r.Post == nil {
		return false
	}
	a, b := deepCopy(r.Pre), deepCopy(r.Post)
	for _, o := range []simkube.Obj{a, b} {
		if sp, ok := o["spec"].(map[string]any); ok {
			delete(sp, "paused")
		}
		if md, ok := o["metadata"].(map[string]any); ok {
			delete(md, "resourceVersion")
			delete(md, "generation")
			delete(md, "managedFields")
		}
	}
	return reflect.DeepEqual(a, b)
}

func deepCopy(o simkube.Obj) simkube.Obj {
	b, _ := json.Marshal(o)
	var out simkube.Obj
	_ = json.Unmarshal(b, &out)
	return out
}

func hasFault(p *simkube.Pass) bool {
	for _, r := range p.Requests {
		if r.Fault != "" {
			return true
		}
	}
	return false
}

func rawString(r *runtime.RawExtension) string {
	if r == nil {
		return "<nil>"
	}
	return string(r.Raw)
}

// ---- scenario ----------------------------------------------------------------------------------

func (w *world) newImage(name string, variant int) string {
	r := w.r
	s := pkggen.Valid(r, name, variant)
	ref := fmt.Sprintf("quay.io/verif/%s:v%d", name, variant)
	im := &image{Spec: s}
	switch r.Intn(10) {
	case 0:
		im.PullErr = true
	case 1:
		s.Defect = pkggen.LoadDefects[r.Intn(len(pkggen.LoadDefects))]
	case 2, 3:
		s.Defect = pkggen.ValidationDefects[r.Intn(len(pkggen.ValidationDefects))]
	case 4, 6:
		s.Constraint = []string{"openshift", "k8s-new", "unique", "k8s-ok", "os-then-k8s-new", "os-then-k8s-ok", "k8s-ok-then-os-new"}[r.Intn(7)]
	case 5:
		s.Components = map[string]*pkggen.Spec{"frontend": pkggen.Valid(r, "frontend", variant)}
		if r.Intn(3) == 0 {
			s.Components["frontend"].Defect = pkggen.ValidationDefects[r.Intn(len(pkggen.ValidationDefects))]
		}
	}
	w.reg.images[ref] = im
	return ref
}

func (w *world) config(valid bool) *runtime.RawExtension {
	if valid {
		return &runtime.RawExtension{Raw: []byte(fmt.Sprintf(`{"greeting":"hello-%d"}`, w.r.Intn(5)))}
	}
	return &runtime.RawExtension{Raw: []byte([]string{`{}`, `{"greeting":42}`, `{"greeting":"x","count":"many"}`}[w.r.Intn(3)])}
}

func run(c *vh.Ctx, i int) {
	r := c.Rand("c16", i)
	w := &world{r: r, c: c, reg: &registry{images: map[string]*image{}, pulls: map[string]int{}}, lastOK: map[string]string{}}
	w.env = manifests.PackageEnvironment{Kubernetes: manifests.PackageEnvironmentKubernetes{Version: "1.27.3"}}
	if r.Intn(3) == 0 {
		w.env.OpenShift = &manifests.PackageEnvironmentOpenShift{Version: "4.14.2"}
	}
	mon := &monitor{w: w}
	opts := driver.Options{
		Controllers: []string{driver.CtrlObjectDeployment, driver.CtrlObjectSet},
		Extra: func(dw *driver.World) map[string]reconcile.Reconciler {
			pc := pkgcontrollers.NewPackageController(dw.Cached, dw.Uncached, logr.Discard(), driver.Scheme, w.reg, nil, nil, nil)
			pc.SetEnvironment(&w.env)
			return map[string]reconcile.Reconciler{driver.CtrlPackage: pc}
		},
	}
	e, err := scen.NewEnv(r, opts, mon)
	if err != nil {
		panic(err)
	}
	w.e = e
	ctx, cl := e.W.Actor("setup")
	driver.MustCreate(ctx, cl, driver.Namespace("ns"))
	// images
	var refs []string
	for k := 0; k < 3+r.Intn(3); k++ {
		refs = append(refs, w.newImage(fmt.Sprintf("app%d", k%3), k))
	}
	refs = append(refs, "quay.io/verif/unknown:v1")
	nPkgs := 1 + r.Intn(2)
	for k := 0; k < nPkgs; k++ {
		name := fmt.Sprintf("pkg-%d", k)
		ref := refs[r.Intn(len(refs))]
		pkg := &corev1alpha1.Package{ObjectMeta: metav1.ObjectMeta{Name: name, Namespace: "ns"}, Spec: corev1alpha1.PackageSpec{Image: ref}}
		if im, ok := w.reg.images[ref]; ok {
			pkg.Labels = map[string]string{pkomodel.PackageLabel: im.Spec.Name}
			if im.Spec.Schema {
				pkg.Spec.Config = w.config(r.Intn(4) != 0)
			}
			if len(im.Spec.Components) > 0 && r.Intn(2) == 0 {
				pkg.Spec.Component = []string{"frontend", "nope"}[r.Intn(2)]
			}
		}
		if r.Intn(5) == 0 {
			pkg.Spec.Component = "frontend" // possibly against an image without components
		}
		if err := e.Create("user", false, pkg); err != nil {
			e.Logf("package rejected by the API: %v", err)
			continue
		}
		w.pkgs = append(w.pkgs, name)
	}
	steps := 25 + r.Intn(30)
	for s := 0; s < steps && len(w.pkgs) > 0; s++ {
		name := w.pkgs[r.Intn(len(w.pkgs))]
		switch r.Intn(12) {
		case 0, 1, 2, 3, 4:
			e.Reconcile(driver.CtrlPackage, types.NamespacedName{Namespace: "ns", Name: name})
		case 5:
			work := e.W.AllWork()
			wk := work[r.Intn(len(work))]
			e.Reconcile(wk.Ctrl, wk.Key)
		case 6:
			ref := refs[r.Intn(len(refs))]
			e.Mutate("user", false, scen.PKO("Package"), "ns", name, "image := "+ref, func(u *unstructured.Unstructured) {
				_ = unstructured.SetNestedField(u.Object, ref, "spec", "image")
				if im, ok := w.reg.images[ref]; ok {
					l := u.GetLabels()
					if l == nil {
						l = map[string]string{}
					}
					l[pkomodel.PackageLabel] = im.Spec.Name
					u.SetLabels(l)
				}
			})
		case 7:
			cfg := w.config(r.Intn(3) != 0)
			e.Mutate("user", false, scen.PKO("Package"), "ns", name, "config := "+string(cfg.Raw), func(u *unstructured.Unstructured) {
				var m map[string]any
				_ = json.Unmarshal(cfg.Raw, &m)
				_ = unstructured.SetNestedField(u.Object, m, "spec", "config")
			})
		case 8:
			comp := []string{"", "frontend", "nope"}[r.Intn(3)]
			e.Mutate("user", false, scen.PKO("Package"), "ns", name, fmt.Sprintf("component := %q", comp), func(u *unstructured.Unstructured) {
				if comp == "" {
					unstructured.RemoveNestedField(u.Object, "spec", "component")
				} else {
					_ = unstructured.SetNestedField(u.Object, comp, "spec", "component")
				}
			})
		case 9:
			// registry state changes: a failing image becomes pullable or the other way round
			ref := refs[r.Intn(len(refs))]
			if im, ok := w.reg.images[ref]; ok {
				im.PullErr = !im.PullErr
				e.Logf("registry: %s pullErr=%v", ref, im.PullErr)
			}
		case 10:
			v := r.Intn(2) == 0
			e.Mutate("user", false, scen.PKO("Package"), "ns", name, fmt.Sprintf("paused := %v", v), func(u *unstructured.Unstructured) {
				_ = unstructured.SetNestedField(u.Object, v, "spec", "paused")
			})
		case 11:
			injectFault(e, r)
		}
	}
	// usually end on a valid spec so that the fresh-render comparison has something to compare
	for _, name := range w.pkgs {
		if r.Intn(4) == 0 {
			continue
		}
		var good []string
		for _, ref := range refs {
			if im, ok := w.reg.images[ref]; ok && !im.PullErr && im.Spec.Defect == "" && (im.Spec.Constraint == "" || im.Spec.Constraint == "k8s-ok" || im.Spec.Constraint == "os-then-k8s-ok") {
				good = append(good, ref)
			}
		}
		if len(good) == 0 {
			continue
		}
		ref := good[r.Intn(len(good))]
		cfg := w.config(true)
		e.Mutate("user", false, scen.PKO("Package"), "ns", name, "final spec: image "+ref+" config "+string(cfg.Raw), func(u *unstructured.Unstructured) {
			_ = unstructured.SetNestedField(u.Object, ref, "spec", "image")
			var m map[string]any
			_ = json.Unmarshal(cfg.Raw, &m)
			_ = unstructured.SetNestedField(u.Object, m, "spec", "config")
			unstructured.RemoveNestedField(u.Object, "spec", "component")
			_ = unstructured.SetNestedField(u.Object, false, "spec", "paused")
		})
	}
	// (d) after the last edit the stored template equals a fresh render of the spec
	e.Quiesce(12)
	for _, name := range w.pkgs {
		w.checkFreshRender(name)
	}
	c.Eval()
	for _, v := range e.Viol {
		c.Violation(v.Sig, v.Msg, map[string]any{"index": i, "stream": "c16", "steps": e.Log, "trace": e.TraceTail(400)})
	}
	for k, v := range e.Counts {
		c.Count(k, v)
	}
	c.Distinct(strings.Join(e.Log, "\n"))
	if i < 1 {
		c.Sample(map[string]any{"steps": e.Log})
	}
}

func Run(c *vh.Ctx) {
	n := c.N(400, 6000)
	vh.Parallel(n, func(i int) {
		if c.Skip("c16", i) {
			return
		}
		run(c, i)
	})
	for _, g := range []chkfam.Gate{{"c16_invalid_class_pull-error", 30}, {"c16_invalid_class_load", 30}, {"c16_invalid_class_validation", 30}, {"c16_invalid_class_config", 20},
		{"c16_invalid_class_constraint", 20}, {"c16_passes_on_unchanged_spec", 300}, {"c16_valid_deploys", 100}, {"c16_fresh_render_compared", 100}} {
		c.GateCount(g.Counter, g.Min)
	}
	c.Finish("exploration",
		"run = 1-2 Packages whose images are drawn from a scripted registry (valid packages, pull errors, load defects, validation defects, unmet platform / version / uniqueness constraints, components) with histories of image / config / component edits, pause, registry changes, repeated reconciles and injected API errors; the real Package controller, deployer, ObjectDeployment and ObjectSet controllers run; every Package pass is classified by an independent validity predicate over (image content, spec, environment, sibling packages) and its writes, pulls and submitted conditions are checked; after settling, the stored ObjectDeployment template (slices expanded) is compared with a fresh render; non-trivial/distinct = distinct step logs",
		append(append([]string{}, chkfam.CommonAssumptions...), "the image puller is a stub serving generated file trees; the environment sink is set directly; the fresh render uses the exported render pipeline (the renderer itself is covered by C13)"))
}
