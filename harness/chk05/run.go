// Package chk05 decides property C05 (deletes hit only controlled objects, pinned to the inspected version).
package chk05

import (
	"math/rand"

	"package-operator.run/internal/verifharness/chkfam"
	"package-operator.run/internal/verifharness/monitors"
	"package-operator.run/internal/verifharness/scen"
	"package-operator.run/internal/verifharness/vh"
)

func Run(c *vh.Ctx) {
	chkfam.Run(c, chkfam.Config{
		Stream: "c05", NQuick: 400, NThorough: 8000,
		Profile: func(r *rand.Rand) scen.Profile {
			return scen.Profile{
				Steps: 60 + r.Intn(60), Cluster: r.Intn(4) == 0, Hosted: r.Intn(3) == 0, Delegated: []float64{0, 0.3}[r.Intn(2)], MaxRevisions: 1 + r.Intn(3),
				Weights: scen.WeightsWith(map[string]int{"reconcile": 45, "adv-reown": 8, "adv-recreate": 5, "adv-edit": 5, "adv-finalizer": 4, "user-archive": 6, "user-delete": 6, "gc": 4, "adv-interpose": 10, "fault": 3, "user-next-revision": 4}),
				CPs:     []string{"", "None", "IfNoController"}, FinalQuiesce: 4,
			}
		},
		Monitors:          func() []scen.Monitor { return []scen.Monitor{&monitors.C05{}} },
		NonTrivialCounter: "c05_deletes",
		Gates:             []chkfam.Gate{{"c05_deletes_of_controlled_objects", 300}, {"c05_co_owner_patches", 20}},
		Rule:              "run = random ObjectSets torn down (archive, delete, delete with orphan propagation) while third parties re-own, modify, delete and re-create the managed objects between passes; every delete request is checked for both preconditions equal to the version the pass inspected and for the owner being controller at commit; teardown patches on co-owned objects may only drop the own reference and the cache label; non-trivial = at least one delete; distinct = distinct step logs",
	})
}
