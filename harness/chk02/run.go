// Package chk02 decides property C02 (handover only moves objects forward between revisions).
package chk02

import (
	"math/rand"

	"package-operator.run/internal/verifharness/chkfam"
	"package-operator.run/internal/verifharness/monitors"
	"package-operator.run/internal/verifharness/scen"
	"package-operator.run/internal/verifharness/vh"
)

func Run(c *vh.Ctx) {
	chkfam.Run(c, chkfam.Config{
		Stream: "c02", NQuick: 300, NThorough: 5000,
		Profile: func(r *rand.Rand) scen.Profile {
			faults := r.Intn(2) * 6 // half of the runs: API errors, lost responses and crashes at upcoming writes, more deletions of revisions
			return scen.Profile{
				Steps: 50 + r.Intn(60), Cluster: r.Intn(4) == 0, Hosted: r.Intn(3) == 0, Delegated: []float64{0, 0, 0.3}[r.Intn(3)], MaxRevisions: 2 + r.Intn(3),
				Weights: scen.WeightsWith(map[string]int{"user-next-revision": 8, "reconcile": 40, "adv-delete": 3, "adv-edit": 3, "adv-create": 0, "adv-reown": 0, "adv-relabel": 0, "adv-recreate": 0, "user-archive": 3, "user-pause": 3, "user-delete": 2 + faults/2, "fault": faults, "restart": faults / 6}),
				CPs:     []string{"", "", "Prevent", "IfNoController", "None", "None"},
			}
		},
		Monitors:          func() []scen.Monitor { return []scen.Monitor{&monitors.C02{}} },
		NonTrivialCounter: "c02_handovers",
		Gates:             []chkfam.Gate{{"c02_handovers_native", 50}, {"c02_handovers_annotation", 2}, {"c02_former_controller_demoted", 30}, {"c02_revision_assigned", 100}, {"c02_revision_raised", 30}},
		Rule:              "run = random revision chain (2-4 hand-made revisions with previous lists sharing, adding and dropping objects; local, delegated and hosted phases) with reconciles of all revisions interleaved at pass granularity with third-party re-owning/relabelling/deleting, pause, archive and delete; every committed write is checked online; non-trivial = at least one handover (controller change on an existing object by a PKO write); distinct = distinct step logs",
	})
}
