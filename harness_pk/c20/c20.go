// Package c20 decides property C20 (concurrent image pulls are de-duplicated without
// losing or sharing results) by driving the real packageimport.RequestManager with a
// scripted pull function under the race detector and checking the recorded intervals.
package c20

import (
	"bytes"
	"context"
	"errors"
	"fmt"
	"math/rand"
	"os"
	"runtime"
	"runtime/pprof"
	"sort"
	"strconv"
	"strings"
	"sync"
	"sync/atomic"
	"time"
	"unsafe"

	"k8s.io/apimachinery/pkg/types"

	"package-operator.run/internal/packages/internal/packageimport"
	"package-operator.run/internal/packages/internal/packagetypes"
	"package-operator.run/internal/verifharness/vh"
)

type invocation struct {
	id         int
	image      string
	start, end int64
	gate       chan struct{}
	fail       bool
	size       int
	pattern    byte
}

type callRec struct {
	caller      int
	image       string
	call, ret   int64
	returned    bool
	inv         int // invocation id carried by the response (-1 unknown)
	isErr       bool
	bad         string // online complaint
	files       packagetypes.Files
	dataPtr     *byte
	generation  int // 0 first request, 1 re-request, ...
	pristineErr string
}

type round struct {
	c        *vh.Ctx
	idx      int
	r        *rand.Rand
	clock    atomic.Int64
	mu       sync.Mutex
	invs     []*invocation
	calls    []*callRec
	inflight map[string]int
	maxIn    map[string]int
	started  chan *invocation
	cancels  map[string][]context.CancelFunc // contexts of the callers currently waiting, per image
	rm       *packageimport.RequestManager
	wg       sync.WaitGroup
	ncallers atomic.Int64
	lateSeq  atomic.Int64
	desc     map[string]any
}

func (rd *round) pull(_ context.Context, ref string) (*packagetypes.RawPackage, error) {
	rd.mu.Lock()
	inv := &invocation{id: len(rd.invs), image: ref, gate: make(chan struct{})}
	inv.fail = rd.r.Intn(5) == 0
	switch rd.r.Intn(12) {
	case 0:
		inv.size = 512 << 10
	case 1:
		inv.size = 64 << 10
	default:
		inv.size = 16 + rd.r.Intn(200)
	}
	inv.pattern = byte(0x80 + inv.id%100)
	yields := rd.r.Intn(4)
	rd.invs = append(rd.invs, inv)
	rd.inflight[ref]++
	if rd.inflight[ref] > rd.maxIn[ref] {
		rd.maxIn[ref] = rd.inflight[ref]
	}
	rd.mu.Unlock()
	inv.start = rd.clock.Add(1)
	rd.started <- inv
	<-inv.gate
	for i := 0; i < yields; i++ {
		runtime.Gosched()
	}
	rd.mu.Lock()
	rd.inflight[ref]--
	rd.mu.Unlock()
	inv.end = rd.clock.Add(1)
	if inv.fail {
		return nil, fmt.Errorf("scripted pull failure inv=%d", inv.id)
	}
	files := packagetypes.Files{
		"id":    []byte(strconv.Itoa(inv.id)),
		"data":  bytes.Repeat([]byte{inv.pattern}, inv.size),
		"extra": []byte("extra"),
	}
	return &packagetypes.RawPackage{Files: files}, nil
}

var invRe = "inv="

func (rd *round) caller(id int, image string, generation int, rerequest int) {
	defer rd.wg.Done()
	rec := &callRec{caller: id, image: image, inv: -1, generation: generation}
	rd.mu.Lock()
	rd.calls = append(rd.calls, rec)
	rd.mu.Unlock()
	rec.call = rd.clock.Add(1)
	// every caller brings its own cancellable context; the controller cancels the contexts of the callers waiting for an
	// image while its pull is in flight (a reconcile that was abandoned) - the pull itself and later callers must not notice
	ctx, cancel := context.WithCancel(context.Background())
	defer cancel()
	rd.mu.Lock()
	if rd.cancels == nil {
		rd.cancels = map[string][]context.CancelFunc{}
	}
	rd.cancels[image] = append(rd.cancels[image], cancel)
	rd.mu.Unlock()
	pkg, err := rd.rm.Pull(ctx, image)
	rec.ret = rd.clock.Add(1)
	rec.returned = true
	switch {
	case err != nil && pkg != nil:
		rec.bad = "both package and error returned"
	case err == nil && pkg == nil:
		rec.bad = "neither package nor error returned"
	case err != nil:
		rec.isErr = true
		s := err.Error()
		if i := strings.LastIndex(s, invRe); i >= 0 {
			if v, e := strconv.Atoi(s[i+len(invRe):]); e == nil {
				rec.inv = v
			}
		}
	default:
		rec.files = pkg.Files
		if v, e := strconv.Atoi(string(pkg.Files["id"])); e == nil {
			rec.inv = v
		}
		data := pkg.Files["data"]
		if len(data) > 0 {
			rec.dataPtr = unsafe.SliceData(data)
		}
		// the copy must be pristine when handed over
		rd.mu.Lock()
		var inv *invocation
		if rec.inv >= 0 && rec.inv < len(rd.invs) {
			inv = rd.invs[rec.inv]
		}
		rd.mu.Unlock()
		if inv != nil {
			if len(data) != inv.size || bytes.Count(data, []byte{inv.pattern}) != len(data) {
				rec.pristineErr = fmt.Sprintf("received data already modified (len %d, want %d bytes of %#x)", len(data), inv.size, inv.pattern)
			}
			if string(pkg.Files["extra"]) != "extra" || len(pkg.Files) != 3 {
				rec.pristineErr = fmt.Sprintf("received file set already modified: %d keys", len(pkg.Files))
			}
		}
		// mutate the private copy: overwrite, add and remove keys
		stamp := byte(1 + id%120)
		copy(data, bytes.Repeat([]byte{stamp}, len(data)))
		pkg.Files[fmt.Sprintf("caller-%d", id)] = []byte{stamp}
		delete(pkg.Files, "extra")
		pkg.Files["id"][0] = 'X'
	}
	if rerequest > 0 {
		n := 1 + int(rd.lateSeq.Add(1))%2
		for i := 0; i < n; i++ {
			nid := int(rd.ncallers.Add(1))
			rd.wg.Add(1)
			go rd.caller(nid, image, generation+1, rerequest-1)
		}
	}
}

// controller opens gates; at each opening it launches late callers racing with the broadcast.
func (rd *round) controller(done <-chan struct{}, lateProb int, delays []int) {
	k := 0
	for {
		select {
		case <-done:
			return
		case inv := <-rd.started:
			d := delays[k%len(delays)]
			k++
			for i := 0; i < d; i++ {
				runtime.Gosched()
			}
			if d > 6 {
				time.Sleep(time.Duration(d) * 20 * time.Microsecond)
			}
			late := 0
			if lateProb > 0 {
				late = (inv.id + d) % (lateProb + 1)
			}
			launch := func(n int) {
				for i := 0; i < n; i++ {
					nid := int(rd.ncallers.Add(1))
					rd.wg.Add(1)
					go rd.caller(nid, inv.image, 0, 0)
				}
			}
			if inv.id%3 == 0 {
				// abandon everybody who waits for this image right now, then let new callers arrive while the pull still runs
				rd.mu.Lock()
				cs := rd.cancels[inv.image]
				rd.cancels[inv.image] = nil
				rd.mu.Unlock()
				for _, c := range cs {
					c()
				}
				if len(cs) > 0 {
					rd.c.Count("waiters_cancelled_during_pull", len(cs))
					for i := 0; i < 3; i++ {
						runtime.Gosched()
					}
					if late == 0 {
						late = 2
					}
				}
			}
			launch(late / 2)
			// token for the controller itself: callers are still blocked on the gate here, so
			// the WaitGroup cannot have reached zero yet
			rd.wg.Add(1)
			close(inv.gate)
			launch(late - late/2)
			rd.wg.Done()
		}
	}
}

func Run(c *vh.Ctx) {
	n := c.N(700, 40000)
	hang := false
	for i := 0; i < n && !hang; i++ {
		if c.Skip("c20", i) {
			continue
		}
		hang = runRound(c, i)
	}
	c.GateCount("rounds_with_shared_result", 20)
	c.GateCount("rounds_with_fresh_pull_after_broadcast", 20)
	c.GateCount("error_broadcasts", 20)
	c.GateCount("late_joiner_shared", 5)
	c.GateCount("callers", 1000)
	c.GateCount("waiters_cancelled_during_pull", 100)
	c.Finish("exploration",
		"round = (images, callers, gate delays, late callers, re-requests, payload sizes) drawn from PRNG(seed,index), executed with real goroutines under -race; non-trivial = some invocation served >= 2 callers or an image was pulled more than once; distinct = distinct (callers per invocation, order of calls/returns) shapes",
		[]string{
			"pull function is scripted through the verif hook SetPullImageForVerif; everything else is the real RequestManager",
			"liveness is decided as bounded progress: 30 s after all gates are open every caller must have returned",
			"interleavings are those the Go scheduler produced (16 cores, Gosched/sleep perturbation), not enumerated",
		})
}

func runRound(c *vh.Ctx, idx int) (hang bool) {
	r := c.Rand("c20", idx)
	rd := &round{
		c: c, idx: idx, r: r, inflight: map[string]int{}, maxIn: map[string]int{},
		started: make(chan *invocation, 4096),
	}
	rd.rm = packageimport.NewRequestManager(nil, nil, nil, types.NamespacedName{})
	rd.rm.SetPullImageForVerif(rd.pull)
	nImages := 1 + r.Intn(4)
	nCallers := 2 + r.Intn(63)
	if r.Intn(3) == 0 {
		nCallers = 2 + r.Intn(6)
	}
	lateProb := r.Intn(6)
	rereq := 0
	if r.Intn(2) == 0 {
		rereq = 1 + r.Intn(2)
	}
	delays := make([]int, 8)
	for i := range delays {
		delays[i] = r.Intn(10)
	}
	images := make([]string, nImages)
	for i := range images {
		images[i] = fmt.Sprintf("quay.io/verif/img-%d:v1", i)
	}
	assign := make([]string, nCallers)
	for i := range assign {
		assign[i] = images[r.Intn(nImages)]
	}
	stagger := r.Intn(3)
	rd.desc = map[string]any{"index": idx, "stream": "c20", "images": nImages, "callers": nCallers, "late": lateProb, "rerequest": rereq, "delays": delays, "stagger": stagger}
	done := make(chan struct{})
	go rd.controller(done, lateProb, delays)
	rd.ncallers.Store(int64(nCallers))
	for i := 0; i < nCallers; i++ {
		rd.wg.Add(1)
		rr := 0
		if rereq > 0 && i%3 == 0 {
			rr = rereq
		}
		go rd.caller(i, assign[i], 0, rr)
		if stagger == 1 && i%4 == 0 {
			runtime.Gosched()
		}
		if stagger == 2 && i%8 == 0 {
			time.Sleep(10 * time.Microsecond)
		}
	}
	finished := make(chan struct{})
	go func() { rd.wg.Wait(); close(finished) }()
	select {
	case <-finished:
	case <-time.After(30 * time.Second):
		hang = true
	}
	close(done)
	c.Eval()
	if hang {
		rd.mu.Lock()
		pending := 0
		for _, cr := range rd.calls {
			if !cr.returned {
				pending++
			}
		}
		ninv := len(rd.invs)
		rd.mu.Unlock()
		f, _ := os.CreateTemp(os.Getenv("VERIF_REPLAY_DIR"), "goroutines-*.txt")
		if f != nil {
			_ = pprof.Lookup("goroutine").WriteTo(f, 1)
			f.Close()
		}
		rd.desc["pending_callers"] = pending
		rd.desc["invocations"] = ninv
		c.Violation("caller-never-answered", fmt.Sprintf("%d callers still waiting 30s after every pull returned (%d pulls)", pending, ninv), rd.desc)
		return true
	}
	rd.check()
	return false
}

func (rd *round) check() {
	c := rd.c
	// online counters
	for img, m := range rd.maxIn {
		if m > 1 {
			c.Violation("more-than-one-pull-in-flight", fmt.Sprintf("%d concurrent pulls for %s", m, img), rd.desc)
		}
	}
	groups := map[int][]*callRec{}
	for _, cr := range rd.calls {
		c.Count("callers", 1)
		if cr.bad != "" {
			c.Violation("bad-response", cr.bad, rd.desc)
			continue
		}
		if cr.inv < 0 || cr.inv >= len(rd.invs) {
			c.Violation("response-from-unknown-pull", fmt.Sprintf("caller %d got a response that no pull produced", cr.caller), rd.desc)
			continue
		}
		inv := rd.invs[cr.inv]
		if inv.image != cr.image {
			c.Violation("response-for-other-image", fmt.Sprintf("caller %d asked %s got result of %s", cr.caller, cr.image, inv.image), rd.desc)
		}
		if inv.fail != cr.isErr {
			c.Violation("response-kind-mismatch", fmt.Sprintf("pull failed=%v but caller got error=%v", inv.fail, cr.isErr), rd.desc)
		}
		if inv.end > cr.ret {
			c.Violation("response-before-pull-ended", fmt.Sprintf("caller %d returned at %d, pull ended %d", cr.caller, cr.ret, inv.end), rd.desc)
		}
		if cr.pristineErr != "" {
			c.Violation("copy-not-private-on-receipt", cr.pristineErr, rd.desc)
		}
		groups[cr.inv] = append(groups[cr.inv], cr)
	}
	perImage := map[string]int{}
	shape := []string{}
	shared, lateShared := false, false
	for id, inv := range rd.invs {
		perImage[inv.image]++
		g := groups[id]
		if len(g) == 0 {
			c.Violation("pull-result-delivered-to-nobody", fmt.Sprintf("pull %d for %s served no caller", id, inv.image), rd.desc)
			continue
		}
		if inv.fail {
			c.Count("error_broadcasts", 1)
		}
		minCall, maxCall, minRet := g[0].call, g[0].call, g[0].ret
		for _, cr := range g {
			if cr.call < minCall {
				minCall = cr.call
			}
			if cr.call > maxCall {
				maxCall = cr.call
			}
			if cr.ret < minRet {
				minRet = cr.ret
			}
		}
		if inv.start < minCall {
			c.Violation("pull-not-demanded", fmt.Sprintf("pull %d started at %d before any caller it served called (%d)", id, inv.start, minCall), rd.desc)
		}
		if maxCall > minRet {
			c.Violation("stale-result-served-after-broadcast",
				fmt.Sprintf("pull %d: a caller called at %d after another caller had already returned with this result at %d", id, maxCall, minRet), rd.desc)
		}
		if len(g) > 1 {
			shared = true
		}
		if maxCall > inv.end {
			lateShared = true // joined after the pull function returned, before the broadcast
		}
		shape = append(shape, fmt.Sprintf("%d", len(g)))
		// privacy among callers served by the same pull
		if !inv.fail {
			seen := map[*byte]int{}
			for _, cr := range g {
				if cr.dataPtr != nil {
					if other, dup := seen[cr.dataPtr]; dup {
						c.Violation("shared-backing-array", fmt.Sprintf("callers %d and %d received the same byte slice", other, cr.caller), rd.desc)
					}
					seen[cr.dataPtr] = cr.caller
				}
				stamp := byte(1 + cr.caller%120)
				data := cr.files["data"]
				if bytes.Count(data, []byte{stamp}) != len(data) {
					c.Violation("copy-modified-by-other-caller", fmt.Sprintf("caller %d's data holds foreign bytes after all callers mutated theirs", cr.caller), rd.desc)
				}
				for k := range cr.files {
					if strings.HasPrefix(k, "caller-") && k != fmt.Sprintf("caller-%d", cr.caller) {
						c.Violation("copy-modified-by-other-caller", fmt.Sprintf("caller %d's file map holds key %s", cr.caller, k), rd.desc)
					}
				}
				if _, has := cr.files["extra"]; has {
					c.Violation("copy-modified-by-other-caller", "deleted key reappeared", rd.desc)
				}
				c.Count("private_copies_checked", 1)
			}
		}
	}
	fresh := false
	for _, n := range perImage {
		if n > 1 {
			fresh = true
		}
	}
	if shared {
		c.Count("rounds_with_shared_result", 1)
	}
	if fresh {
		c.Count("rounds_with_fresh_pull_after_broadcast", 1)
	}
	if lateShared {
		c.Count("late_joiner_shared", 1)
	}
	c.Count("pulls", len(rd.invs))
	if shared || fresh {
		sort.Strings(shape)
		order := make([]string, 0, len(rd.calls))
		type ev struct {
			t int64
			s string
		}
		evs := []ev{}
		for _, cr := range rd.calls {
			evs = append(evs, ev{cr.call, "c" + strconv.Itoa(cr.inv)}, ev{cr.ret, "r" + strconv.Itoa(cr.inv)})
		}
		sort.Slice(evs, func(i, j int) bool { return evs[i].t < evs[j].t })
		for _, e := range evs {
			order = append(order, e.s)
		}
		c.Distinct(strings.Join(shape, ",") + "|" + strings.Join(order, ""))
	}
	if rd.idx < 3 {
		s := map[string]any{}
		for k, v := range rd.desc {
			s[k] = v
		}
		s["pulls"] = len(rd.invs)
		s["callers_total"] = len(rd.calls)
		s["callers_per_pull"] = shape
		c.Sample(s)
	}
}

var _ = errors.New
