package main

import (
	"package-operator.run/internal/verifharness/chk03"
	"package-operator.run/internal/verifharness/vh"
)

func main() { chk03.Run(vh.Start("C03")) }
