package main

import (
	"context"
	"fmt"

	metav1 "k8s.io/apimachinery/pkg/apis/meta/v1"
	"k8s.io/apimachinery/pkg/types"

	corev1alpha1 "package-operator.run/apis/core/v1alpha1"
	"package-operator.run/internal/verifharness/driver"
)

func main() {
	w, err := driver.NewWorld(driver.Options{})
	if err != nil {
		panic(err)
	}
	ctx, c := w.Actor("user")
	driver.MustCreate(ctx, c, driver.Namespace("ns1"))
	os := &corev1alpha1.ObjectSet{
		ObjectMeta: metav1.ObjectMeta{Name: "os1", Namespace: "ns1"},
		Spec: corev1alpha1.ObjectSetSpec{
			ObjectSetTemplateSpec: corev1alpha1.ObjectSetTemplateSpec{
				Phases: []corev1alpha1.ObjectSetTemplatePhase{
					{Name: "a", Objects: []corev1alpha1.ObjectSetObject{{Object: *driver.U(map[string]any{
						"apiVersion": "v1", "kind": "ConfigMap", "metadata": map[string]any{"name": "cm1"}, "data": map[string]any{"k": "v"},
					})}}},
					{Name: "b", Objects: []corev1alpha1.ObjectSetObject{{Object: *driver.U(map[string]any{
						"apiVersion": "apps/v1", "kind": "Deployment", "metadata": map[string]any{"name": "d1"}, "spec": map[string]any{"replicas": 1},
					})}}},
				},
				AvailabilityProbes: []corev1alpha1.ObjectSetProbe{{
					Selector: corev1alpha1.ProbeSelector{Kind: &corev1alpha1.PackageProbeKindSpec{Group: "apps", Kind: "Deployment"}},
					Probes:   []corev1alpha1.Probe{{Condition: &corev1alpha1.ProbeConditionSpec{Type: "Available", Status: "True"}}},
				}},
			},
		},
	}
	driver.MustCreate(ctx, c, os)
	for i := 0; i < 3; i++ {
		pr := w.Reconcile(context.Background(), driver.CtrlObjectSet, types.NamespacedName{Namespace: "ns1", Name: "os1"})
		fmt.Printf("pass %d: res=%+v err=%v panic=%v\n", i, pr.Result, pr.Err, pr.Panic)
		if pr.Panic != nil {
			fmt.Println(pr.Stack)
		}
		for _, r := range pr.Pass.Requests {
			fmt.Println("   ", r)
		}
	}
	o := w.Store.Peek(corev1alpha1.GroupVersion.WithKind("ObjectSet").GroupKind(), "ns1", "os1")
	fmt.Printf("status: %v\n", o["status"])
	fmt.Printf("cm: %v\n", w.Store.Peek(driver.U(map[string]any{"apiVersion": "v1", "kind": "ConfigMap"}).GroupVersionKind().GroupKind(), "ns1", "cm1"))
}
