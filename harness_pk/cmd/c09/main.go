package main

import (
	"package-operator.run/internal/verifharness/chk09"
	"package-operator.run/internal/verifharness/vh"
)

func main() { chk09.Run(vh.Start("C09")) }
