package main

import (
	"package-operator.run/internal/verifharness/chk06"
	"package-operator.run/internal/verifharness/vh"
)

func main() { chk06.Run(vh.Start("C06")) }
