package main

import (
	"package-operator.run/internal/verifharness/chk19"
	"package-operator.run/internal/verifharness/vh"
)

func main() { chk19.Run(vh.Start("C19")) }
