package main

import (
	"package-operator.run/internal/verifharness/chk04"
	"package-operator.run/internal/verifharness/vh"
)

func main() { chk04.Run(vh.Start("C04")) }
