package main

import (
	"package-operator.run/internal/verifharness/c13"
	"package-operator.run/internal/verifharness/vh"
)

func main() { c13.Run(vh.Start("C13")) }
