package main

import (
	"package-operator.run/internal/verifharness/chk02"
	"package-operator.run/internal/verifharness/vh"
)

func main() { chk02.Run(vh.Start("C02")) }
