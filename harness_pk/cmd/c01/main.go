package main

import (
	"package-operator.run/internal/verifharness/chk01"
	"package-operator.run/internal/verifharness/vh"
)

func main() { chk01.Run(vh.Start("C01")) }
