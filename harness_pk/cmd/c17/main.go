package main

import (
	"package-operator.run/internal/verifharness/c17"
	"package-operator.run/internal/verifharness/vh"
)

func main() { c17.Run(vh.Start("C17")) }
