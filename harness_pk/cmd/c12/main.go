package main

import (
	"package-operator.run/internal/verifharness/c12"
	"package-operator.run/internal/verifharness/vh"
)

func main() { c12.Run(vh.Start("C12")) }
