package main

import (
	"package-operator.run/internal/verifharness/chk07"
	"package-operator.run/internal/verifharness/vh"
)

func main() { chk07.Run(vh.Start("C07")) }
