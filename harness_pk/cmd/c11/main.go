package main

import (
	"package-operator.run/internal/verifharness/chk11"
	"package-operator.run/internal/verifharness/vh"
)

func main() { chk11.Run(vh.Start("C11")) }
