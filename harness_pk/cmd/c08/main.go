package main

import (
	"package-operator.run/internal/verifharness/chk08"
	"package-operator.run/internal/verifharness/vh"
)

func main() { chk08.Run(vh.Start("C08")) }
