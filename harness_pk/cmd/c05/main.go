package main

import (
	"package-operator.run/internal/verifharness/chk05"
	"package-operator.run/internal/verifharness/vh"
)

func main() { chk05.Run(vh.Start("C05")) }
