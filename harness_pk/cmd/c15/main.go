package main

import (
	"package-operator.run/internal/verifharness/chk10"
	"package-operator.run/internal/verifharness/vh"
)

func main() { chk10.RunC15(vh.Start("C15")) }
