package main

import (
	"package-operator.run/internal/verifharness/chk14"
	"package-operator.run/internal/verifharness/vh"
)

func main() { chk14.Run(vh.Start("C14")) }
