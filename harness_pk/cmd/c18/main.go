package main

import (
	"package-operator.run/internal/verifharness/chk18"
	"package-operator.run/internal/verifharness/vh"
)

func main() { chk18.Run(vh.Start("C18")) }
