package main

import (
	"package-operator.run/internal/verifharness/chk16"
	"package-operator.run/internal/verifharness/vh"
)

func main() { chk16.Run(vh.Start("C16")) }
