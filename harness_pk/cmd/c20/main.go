package main

import (
	"package-operator.run/internal/packages/verifharness/c20"
	"package-operator.run/internal/verifharness/vh"
)

func main() { c20.Run(vh.Start("C20")) }
