# shellcheck shell=bash
# Common environment for every /verif command. Offline, pinned toolchain.
VERIF_ROOT="$(cd "$(dirname "${BASH_SOURCE[0]}")/.." && pwd)"
REPO="${VERIF_REPO:-/repo}"
GO_TC=/root/go/pkg/mod/golang.org/toolchain@v0.0.1-go1.23.8.linux-amd64/bin/go
if [ -x "$GO_TC" ]; then GO="$GO_TC"; else GO="$(command -v go)"; fi
export GOTOOLCHAIN=local GOWORK=off GOFLAGS=-mod=mod GOPROXY=off GOSUMDB=off GONOSUMDB='*' GONOSUMCHECK=1
export CGO_ENABLED=1
SCRATCH_BASE="${VERIF_SCRATCH_BASE:-/var/tmp/pko-verif}"

# prepare_tree <dir>: copy /repo's working tree and drop the harness into it
prepare_tree() {
  local dst="$1"
  mkdir -p "$dst/src"
  rsync -a --delete --exclude .git --exclude MUTANT "$REPO/" "$dst/src/"
  mkdir -p "$dst/src/internal/verifharness" "$dst/src/internal/packages/verifharness"
  rsync -a "$VERIF_ROOT/harness/" "$dst/src/internal/verifharness/"
  rsync -a "$VERIF_ROOT/harness_pk/" "$dst/src/internal/packages/verifharness/"
  (cd "$dst/src" && "$GO" mod edit -require=github.com/anishathalye/porcupine@v1.3.0)
}

# build_check <dir> <id-lowercase> : builds $dir/bin/<id>
build_check() {
  local dst="$1" id="$2"
  mkdir -p "$dst/bin"
  (cd "$dst/src" && "$GO" build -race -trimpath -tags verif -o "$dst/bin/$id" "./internal/packages/verifharness/cmd/$id")
}
